(* C07 -- Remote memory reads and writes are byte-exact for any address and length.

   Theorems only; each is closed by `exact` of a lemma of Proofs/MemOps*.v.  The model (Model/MemOps.v on
   Model/Machine.v) takes every piece of loop arithmetic -- conditions, block sizes, chunk addresses, data-type
   keys, command arguments, result-buffer slices, updates, the struct / per-core address expressions, the
   branch condition of fill, the receive length -- from Generated/GenMemOps.v, so these theorems are
   re-checked against the current text of scp_connection.py / machine_controller.py and the live
   address_length_dtype table and sark.struct on every run.

   Reading the statements:
     mk_env buffer nbr   the machine advertises `buffer` data bytes, nbr is its topology;
     order               how a burst was actually executed / completed: any list that [covers] the chunk list
                         (window > 1, lost / delayed / duplicated replies permute and repeat).  The order
                         theorems ASSUME that each callback gets the reply to its own command; C06 proves that
                         only under `causal` + `fresh` and refutes it without `fresh` (a duplicate that outlives its
                         16-bit sequence number).  The burst theorems below carry that condition explicitly
                         ([own_replies]) and C07_read_other_reply_refuted shows what happens without it;
     mem_range (M c) a n the bytes stored at [a, a+n) of chip c;
     stored_exactly M M' c a data   M' has exactly `data` at [a, a+|data|) of chip c and equals M at every
                         other byte of every chip;
     trace_ok buffer tr  every command sent is within the buffer and uses a word / half-word unit only for
                         a so aligned address and length.
   Guards: 0 <= address, address + length <= 2^32 (the 32-bit address space), 1 <= buffer < 2^32 (4 <= buffer for
   the link functions: below that they do not terminate, C07_guards_needed), word alignment for the link
   functions (otherwise the documented ValueError: the four C07_link_..._misaligned_... theorems).
   Not covered by a theorem (harness only): the value <-> bytes step of struct fields (struct.pack / unpack, utf-8
   names); which chip / core a call addresses when x, y, p come from contexts (C18's rule); discover_connections and
   the choice of connection; what a WRITE leaves behind when its burst raises (only: nothing outside the range, by
   the oracle); the closed form of the receive length for buffer sizes beyond the 16 bits sver can report (the float
   expression is checked against it up to 65607; a deviation could only make the length larger). *)
From Coq Require Import ZArith List Bool String.
Require Import Rig.Generated.GenMemOps Rig.Generated.GenSCP Rig.Model.Base Rig.Model.Machine Rig.Model.MemOps
  Rig.Spec.MemOps Rig.Proofs.MemOpsArith Rig.Proofs.MemOps Rig.Proofs.MemOpsChunks Rig.Proofs.MemOpsExact
  Rig.Proofs.MemOpsTop Rig.Proofs.MemOpsFill Rig.Proofs.MemOpsLink Rig.Model.MemOpsState Rig.Proofs.MemOpsState
  Rig.Proofs.MemOpsExamples.
Require Rig.Model.SCP Rig.Spec.SCP.
Import ListNotations.
Open Scope Z_scope.

(* ---- the data-type table: all 16 entries name a unit that divides both address and length *)
Theorem C07_dtype_table :
  forall a n, exists d u, dtype_lookup (a mod 4, n mod 4) = Ok d /\ unit_of d = Some u /\
                          a mod u = 0 /\ n mod u = 0 /\ (u = 1 \/ u = 2 \/ u = 4).
Proof. exact dtype_key_ok. Qed.

(* ---- the chunk lists tile the request (contiguous, 1..buffer bytes each, slices partition [0, length)) *)
Theorem C07_read_chunks_tile :
  forall address length buffer, 1 <= buffer -> 0 <= length ->
    exists cs, read_chunks address length buffer = Ok cs /\ read_tiles cs address buffer 0 length.
Proof. exact read_chunks_tiles. Qed.

Theorem C07_write_chunks_tile :
  forall address buffer data, 1 <= buffer ->
    exists cs, write_chunks address buffer data = Ok cs /\ write_tiles cs address buffer data 0.
Proof. exact write_chunks_tiles. Qed.

(* ---- reads are exact, whatever the order in which the replies complete *)
Theorem C07_read_exact :
  forall buffer nbr M c core address length (order : list rchunk -> list rchunk),
    0 <= address -> 0 <= length -> address + length <= 2 ^ 32 -> 1 <= buffer < 2 ^ 32 ->
    (forall cs, covers cs (order cs)) ->
    exists tr, sc_read_order (mk_env buffer nbr) M c core address length order =
                 Ok (tr, mem_range (M c) address length) /\
               trace_ok buffer tr /\ Forall (fun r => is_read_cmd (rq_cmd r)) tr /\
               Forall (fun r => rq_chip r = c /\ rq_core r = core) tr.
Proof. exact sc_read_order_exact. Qed.

(* ... and read commands, executed any number of times in any order, leave every byte of the machine alone *)
Theorem C07_reads_change_nothing :
  forall buffer nbr rs M, Forall (fun r => is_read_cmd (rq_cmd r)) rs -> exec_all buffer nbr M rs = M.
Proof. exact exec_all_reads. Qed.

(* ---- writes leave exactly the data at exactly the addresses, for every order / repetition of the commands *)
Theorem C07_write_exact :
  forall buffer nbr M c core address data (order : list call -> list call),
    0 <= address -> address + zlen data <= 2 ^ 32 -> 1 <= buffer < 2 ^ 32 ->
    (forall cs, covers cs (order cs)) ->
    exists tr M', sc_write_order (mk_env buffer nbr) M c core address data order = Ok (tr, M') /\
                  stored_exactly M M' c address data /\ trace_ok buffer tr /\
                  Forall (fun r => rq_chip r = c) tr.
Proof. exact sc_write_order_exact. Qed.

(* ---- struct fields: address = struct base + field offset (every field of the live sark.struct `sv`) *)
Theorem C07_read_struct_exact :
  forall buffer nbr M c core name off n,
    1 <= buffer < 2 ^ 32 -> field_find name sv_fields = Some (off, n) ->
    exists tr, mc_read_struct (mk_env buffer nbr) M c core name =
                 Ok (tr, mem_range (M c) (sv_struct_base + off) n) /\
               trace_ok buffer tr /\ Forall (fun r => is_read_cmd (rq_cmd r)) tr /\
               Forall (fun r => rq_chip r = c /\ rq_core r = core) tr.
Proof. exact mc_read_struct_exact. Qed.

Theorem C07_write_struct_exact :
  forall buffer nbr M c core name off n data,
    1 <= buffer < 2 ^ 32 -> field_find name sv_fields = Some (off, n) -> zlen data = n ->
    exists tr M', mc_write_struct (mk_env buffer nbr) M c core name data = Ok (tr, M') /\
                  stored_exactly M M' c (sv_struct_base + off) data /\ trace_ok buffer tr /\
                  Forall (fun r => rq_chip r = c) tr.
Proof. exact mc_write_struct_exact. Qed.

(* ---- per-core fields: address = word stored in sv.vcpu_base + block size * core + field offset *)
Theorem C07_read_vcpu_exact :
  forall buffer nbr M c p name off n,
    1 <= buffer < 2 ^ 32 -> field_find name vcpu_fields = Some (off, n) ->
    0 <= vcpu_addr M c p off -> vcpu_addr M c p off + n <= 2 ^ 32 ->
    exists tr, mc_read_vcpu (mk_env buffer nbr) M c p name =
                 Ok (tr, mem_range (M c) (vcpu_addr M c p off) n) /\
               trace_ok buffer tr /\ Forall (fun r => is_read_cmd (rq_cmd r)) tr /\
               Forall (fun r => rq_chip r = c) tr.
Proof. exact mc_read_vcpu_exact. Qed.

Theorem C07_write_vcpu_exact :
  forall buffer nbr M c p name off n data,
    1 <= buffer < 2 ^ 32 -> field_find name vcpu_fields = Some (off, n) -> zlen data = n ->
    0 <= vcpu_addr M c p off -> vcpu_addr M c p off + n <= 2 ^ 32 ->
    exists tr M', mc_write_vcpu (mk_env buffer nbr) M c p name data = Ok (tr, M') /\
                  stored_exactly M M' c (vcpu_addr M c p off) data /\ trace_ok buffer tr /\
                  Forall (fun r => rq_chip r = c) tr.
Proof. exact mc_write_vcpu_exact. Qed.

(* ---- fill, both branches: `size` copies of the byte (unaligned: by write) or size/4 copies of the
        little-endian word (aligned: one FILL command) *)
Theorem C07_fill_exact :
  forall buffer nbr M c core address data size,
    1 <= buffer < 2 ^ 32 -> 0 <= address < 2 ^ 32 -> 0 <= size < 2 ^ 32 -> address + size <= 2 ^ 32 ->
    (fill_uses_write address size = true -> 0 <= data <= 255) ->
    (fill_uses_write address size = false -> 0 <= data < 2 ^ 32) ->
    exists tr M', mc_fill (mk_env buffer nbr) M c core address data size = Ok (tr, M') /\
                  stored_exactly M M' c address (fill_bytes address data size) /\ trace_ok buffer tr /\
                  Forall (fun r => rq_chip r = c) tr.
Proof. exact mc_fill_exact. Qed.

(* ---- across a link: whole-word chunks on the neighbouring chip, under buffer >= 4 *)
Theorem C07_read_link_exact :
  forall buffer nbr M c address length link,
    4 <= buffer < 2 ^ 32 -> 0 <= address -> address mod 4 = 0 -> 0 <= length -> length mod 4 = 0 ->
    address + length <= 2 ^ 32 -> 0 <= link < 2 ^ 32 ->
    exists tr, mc_read_link (mk_env buffer nbr) M c address length link =
                 Ok (tr, mem_range (M (nbr c link)) address length) /\
               trace_ok buffer tr /\ Forall (fun r => is_read_cmd (rq_cmd r)) tr /\
               Forall (fun r => rq_chip r = c) tr.
Proof. exact mc_read_link_exact. Qed.

Theorem C07_write_link_exact :
  forall buffer nbr M c address link data (order : list (Z * call) -> list (Z * call)),
    4 <= buffer < 2 ^ 32 -> 0 <= address -> address mod 4 = 0 -> zlen data mod 4 = 0 ->
    address + zlen data <= 2 ^ 32 -> 0 <= link < 2 ^ 32 ->
    (forall cs, covers cs (order cs)) ->
    exists tr M', mc_write_link_order (mk_env buffer nbr) M c address link data order = Ok (tr, M') /\
                  stored_exactly M M' (nbr c link) address data /\ trace_ok buffer tr /\
                  Forall (fun r => rq_chip r = c) tr.
Proof. exact mc_write_link_order_exact. Qed.

(* the documented errors of the link functions (ValueError: address, then length) *)
Theorem C07_link_read_misaligned_address :
  forall E M c address length link, address mod 4 <> 0 -> mc_read_link E M c address length link = Failed 0.
Proof. exact mc_read_link_misaligned_address. Qed.

Theorem C07_link_read_misaligned_length :
  forall E M c address length link,
    address mod 4 = 0 -> length mod 4 <> 0 -> mc_read_link E M c address length link = Failed 1.
Proof. exact mc_read_link_misaligned_length. Qed.

Theorem C07_link_write_misaligned_address :
  forall E M c address link data, address mod 4 <> 0 -> mc_write_link E M c address link data = Failed 0.
Proof. exact mc_write_link_misaligned_address. Qed.

Theorem C07_link_write_misaligned_length :
  forall E M c address link data,
    address mod 4 = 0 -> zlen data mod 4 <> 0 -> mc_write_link E M c address link data = Failed 1.
Proof. exact mc_write_link_misaligned_length. Qed.

(* ---- the receive length of send_scp_burst (after fix dbd83a4) holds every reply the buffer size allows:
        the guard `chunk + header <= receive length` is a lemma, not a hypothesis of the theorems above *)
Theorem C07_receive_length_fits :
  forall buffer s, 0 <= buffer -> s <= buffer -> s + read_reply_data_offset <= receive_length buffer.
Proof. exact receive_fits. Qed.

(* the code as found computed 2^ceil(log2(buffer + 8)): a full read chunk's reply did not fit for buffer sizes
   just below a power of two, and the read raised (replayed on the real code: finding recv-length-truncates-reply) *)
Theorem C07_recv_length_truncates_orig_refuted :
  exists buffer M c core address length cs,
    1 <= buffer < 2 ^ 32 /\ 0 <= address /\ 0 <= length /\ address + length <= 2 ^ 32 /\
    read_chunks address length buffer = Ok cs /\
    read_run {| e_buffer := buffer; e_rl := receive_length_orig buffer; e_nbr := ex_nbr |} M c core cs
             (repeat 0 (Z.to_nat length)) = OtherError.
Proof. exact ex_recv_length_orig. Qed.

(* ---- the struct tables are controller STATE: __init__ sets the bundled file's, boot() REPLACES them (shape
        re-extracted on every run: GenMemOps.boot_replaces_structs); a field's address is base + offset per the
        CURRENT tables, whatever the controller used before *)
Theorem C07_default_structs_ok : sfile_ok default_sfile.
Proof. exact default_sfile_ok. Qed.

Theorem C07_never_booted_is_stateless :
  forall E M c o, st_run_op ctl_new E M c o = run_op E M c o.
Proof. exact st_run_op_new. Qed.

Theorem C07_boot_replaces_structs : forall S ct, ctl_structs (ctl_boot S ct) = S.
Proof. exact ctl_boot_structs. Qed.

Theorem C07_history_uses_last_tables :
  forall steps ct, ctl_structs (fold_left ctl_apply steps ct) = last_structs steps (ctl_structs ct).
Proof. exact history_uses_last_tables. Qed.

Theorem C07_read_struct_current_tables :
  forall ct buffer nbr M c core name off n,
    sfile_ok (ctl_structs ct) -> 1 <= buffer < 2 ^ 32 ->
    field_find name (sf_sv (ctl_structs ct)) = Some (off, n) ->
    exists tr, st_read_struct ct (mk_env buffer nbr) M c core name =
                 Ok (tr, mem_range (M c) (sf_sv_base (ctl_structs ct) + off) n) /\
               trace_ok buffer tr /\ Forall (fun r => is_read_cmd (rq_cmd r)) tr /\
               Forall (fun r => rq_chip r = c /\ rq_core r = core) tr.
Proof. exact st_read_struct_exact. Qed.

Theorem C07_write_struct_current_tables :
  forall ct buffer nbr M c core name off n data,
    sfile_ok (ctl_structs ct) -> 1 <= buffer < 2 ^ 32 ->
    field_find name (sf_sv (ctl_structs ct)) = Some (off, n) -> zlen data = n ->
    exists tr M', st_write_struct ct (mk_env buffer nbr) M c core name data = Ok (tr, M') /\
                  stored_exactly M M' c (sf_sv_base (ctl_structs ct) + off) data /\ trace_ok buffer tr /\
                  Forall (fun r => rq_chip r = c) tr.
Proof. exact st_write_struct_exact. Qed.

Theorem C07_read_vcpu_current_tables :
  forall ct buffer nbr M c p name off n vboff,
    sfile_ok (ctl_structs ct) -> 1 <= buffer < 2 ^ 32 ->
    field_find "vcpu_base" (sf_sv (ctl_structs ct)) = Some (vboff, 4) ->
    field_find name (sf_vcpu (ctl_structs ct)) = Some (off, n) ->
    0 <= st_vcpu_addr (ctl_structs ct) vboff M c p off ->
    st_vcpu_addr (ctl_structs ct) vboff M c p off + n <= 2 ^ 32 ->
    exists tr, st_read_vcpu ct (mk_env buffer nbr) M c p name =
                 Ok (tr, mem_range (M c) (st_vcpu_addr (ctl_structs ct) vboff M c p off) n) /\
               trace_ok buffer tr /\ Forall (fun r => is_read_cmd (rq_cmd r)) tr /\
               Forall (fun r => rq_chip r = c) tr.
Proof. exact st_read_vcpu_exact. Qed.

Theorem C07_write_vcpu_current_tables :
  forall ct buffer nbr M c p name off n vboff data,
    sfile_ok (ctl_structs ct) -> 1 <= buffer < 2 ^ 32 ->
    field_find "vcpu_base" (sf_sv (ctl_structs ct)) = Some (vboff, 4) ->
    field_find name (sf_vcpu (ctl_structs ct)) = Some (off, n) -> zlen data = n ->
    0 <= st_vcpu_addr (ctl_structs ct) vboff M c p off ->
    st_vcpu_addr (ctl_structs ct) vboff M c p off + n <= 2 ^ 32 ->
    exists tr M', st_write_vcpu ct (mk_env buffer nbr) M c p name data = Ok (tr, M') /\
                  stored_exactly M M' c (st_vcpu_addr (ctl_structs ct) vboff M c p off) data /\
                  trace_ok buffer tr /\ Forall (fun r => rq_chip r = c) tr.
Proof. exact st_write_vcpu_exact. Qed.

(* ---- composition with C06.
        (1) Unconditionally: the callbacks of a burst (Model/SCP.v) that returns complete every chunk exactly once,
        so the order they give covers the chunk list -- for every connection state (the 16-bit sequence counter
        anywhere), window, try count and event list (C06_completion_exactly_once).
        (2) WHICH reply a callback is handed is not unconditional: sc_read_burst splices, into the slice of the
        chunk whose callback runs, the payload of the reply the callback was actually handed -- the reply to the
        command that the datagram's transmission carried ([served], [owner_of]).  Under [own_replies] (every callback
        was handed the reply to its own command) a read over a burst is exact when the burst returns and raises
        otherwise.  C06 establishes own_replies under config_ok, history_ok, `causal` and `fresh`
        (C07_own_replies_under_c06, via C06_reply_matches); without `fresh` C06 refutes it (its finding
        seq-wrap-stale-duplicate), and then a read can return another chunk's bytes without raising
        (C07_read_other_reply_refuted).  For a write, own_replies is what makes the callbacks witness executions: a
        command completed by its own reply was executed by the machine. *)
Theorem C07_burst_order_covers :
  forall (A : Type) (cs : list A) cf evs k tr k' rest,
    SCP.burst cf (burst_cmds (List.length cs)) evs k = (tr, SCP.Returned, k', rest) ->
    covers cs (order_of cs tr).
Proof. exact order_of_covers. Qed.

Theorem C07_read_over_burst_exact_or_raises :
  forall cf evs k past buffer nbr M c core address length r,
    0 <= address -> 0 <= length -> address + length <= 2 ^ 32 -> 1 <= buffer < 2 ^ 32 ->
    (forall tr k' rest cs, read_chunks address length buffer = Ok cs ->
       SCP.burst cf (burst_cmds (List.length cs)) evs k = (tr, SCP.Returned, k', rest) ->
       own_replies (past ++ tr) tr = true) ->
    sc_read_burst cf evs k past (mk_env buffer nbr) M c core address length = r ->
    (exists tr, r = Ok (tr, mem_range (M c) address length) /\ trace_ok buffer tr /\
                Forall (fun q => is_read_cmd (rq_cmd q)) tr) \/
    (forall v, r <> Ok v).
Proof. exact sc_read_burst_exact_or_raises. Qed.

Theorem C07_write_over_burst_exact :
  forall cf evs k past tr k' rest buffer nbr M c core address data cs,
    0 <= address -> address + zlen data <= 2 ^ 32 -> 1 <= buffer < 2 ^ 32 ->
    write_chunks address buffer data = Ok cs ->
    SCP.burst cf (burst_cmds (List.length cs)) evs k = (tr, SCP.Returned, k', rest) ->
    own_replies (past ++ tr) tr = true ->
    exists trq M', call_run (mk_env buffer nbr) M c core (order_of cs tr) = Ok (trq, M') /\
                   stored_exactly M M' c address data /\ trace_ok buffer trq.
Proof. exact call_run_burst_exact. Qed.

(* own_replies from C06's hypotheses (tx_unique: transmission numbers name transmissions, as C06's counter k_ntx
   makes them) *)
Theorem C07_own_replies_under_c06 :
  forall cf n evs k past tr oc k' rest,
    Spec.SCP.config_ok cf -> Spec.SCP.history_ok past k (burst_cmds n) ->
    SCP.burst cf (burst_cmds n) evs k = (tr, oc, k', rest) ->
    Spec.SCP.causal (past ++ tr) -> Spec.SCP.fresh (past ++ tr) -> tx_unique (past ++ tr) ->
    own_replies (past ++ tr) tr = true.
Proof. exact own_replies_under_c06. Qed.

(* without own replies: two chunks of equal size, the callback of the second is handed a reply caused by the first
   one's command: nothing is raised and the read returns the first chunk's bytes twice *)
Theorem C07_read_other_reply_refuted :
  exists cs hist tr,
    read_chunks 4096 8 4 = Ok cs /\ own_replies hist tr = false /\ covers cs (map fst (served cs hist tr)) /\
    match read_run_served (mk_env 4 ex_nbr) ex_M (1, 2) 0 (served cs hist tr) (repeat 0 8) with
    | Ok (_, out) => Some out
    | _ => None
    end = Some (mem_range (ex_M (1, 2)) 4096 4 ++ mem_range (ex_M (1, 2)) 4096 4)%list /\
    (mem_range (ex_M (1, 2)) 4096 4 ++ mem_range (ex_M (1, 2)) 4096 4)%list <> mem_range (ex_M (1, 2)) 4096 8.
Proof. exact ex_other_reply. Qed.

Example C07_burst_across_seq_wrap :
  (let '(tr, oc, k', _) := SCP.burst ex_wrap_cf (burst_cmds 4) ex_wrap_events ex_wrap_conn in
   (callback_ids tr, oc, SCP.k_seq k', own_replies ([] ++ tr) tr,
    flat_map (fun o => match o with SCP.OSend _ c s _ => [(c, s)] | _ => [] end) tr)) =
  ([1; 0; 3; 2], SCP.Returned, 2, true, [(0, 65534); (1, 65535); (2, 0); (3, 1); (2, 0); (3, 1)]) /\
  match sc_read_burst ex_wrap_cf ex_wrap_events ex_wrap_conn [] (mk_env 4 ex_nbr) ex_M (1, 2) 0 4097 16 with
  | Ok (tr, out) => Some (map (fun r => match rq_cmd r with CRead a _ _ => a | _ => 0 end) tr, out)
  | _ => None
  end = Some ([4101; 4097; 4109; 4105], mem_range (ex_M (1, 2)) 4097 16).
Proof. exact ex_wrap_instance. Qed.

Example C07_reboot_moves_fields :
  match st_run_op (ctl_boot ex_moved ctl_new) (mk_env 16 ex_nbr) ex_M (1, 2) (OpReadStruct 0 "utmp0") with
  | Ok (tr, out, _) => Some (map (fun r => match rq_cmd r with CRead a _ _ => a | _ => 0 end) tr, out)
  | _ => None
  end = Some ([4110450176 + 116], mem_range (ex_M (1, 2)) (4110450176 + 116) 4) /\
  match st_run_op ctl_new (mk_env 16 ex_nbr) ex_M (1, 2) (OpReadStruct 0 "utmp0") with
  | Ok (tr, out, _) => Some (map (fun r => match rq_cmd r with CRead a _ _ => a | _ => 0 end) tr)
  | _ => None
  end = Some [sv_struct_base + 112].
Proof. exact ex_reboot_instance. Qed.

(* ---- non-vacuity, necessity of the guards, error branches *)
Example C07_read_hypotheses_satisfiable :
  1 <= 16 < 2 ^ 32 /\ 0 <= 1001 /\ 0 <= 37 /\ 1001 + 37 <= 2 ^ 32 /\
  match sc_read (mk_env 16 ex_nbr) ex_M (1, 2) 0 1001 37 with
  | Ok (tr, out) => Some (List.length tr, out)
  | _ => None
  end = Some (3%nat, mem_range (ex_M (1, 2)) 1001 37).
Proof. exact ex_read_instance. Qed.

Example C07_write_hypotheses_satisfiable :
  match sc_write (mk_env 16 ex_nbr) ex_M (1, 2) 0 1000 (pattern_data 1 40) with
  | Ok (tr, M') =>
      Some (map (fun r => match rq_cmd r with CWrite a n t _ => (a, n, t) | _ => (0, 0, 0) end) tr,
            mem_range (M' (1, 2)) 999 42)
  | _ => None
  end =
  Some ([(1000, 16, DataType_word); (1016, 16, DataType_word); (1032, 8, DataType_word)],
        ex_M (1, 2) 999 :: pattern_data 1 40 ++ [ex_M (1, 2) 1040]).
Proof. exact ex_write_instance. Qed.

Example C07_write_permuted_repeated :
  match sc_write_order (mk_env 16 ex_nbr) ex_M (1, 2) 0 1001 (pattern_data 1 37) (fun cs => (rev cs ++ cs)%list) with
  | Ok (tr, M') => Some (List.length tr, mem_range (M' (1, 2)) 1000 39)
  | _ => None
  end = Some (6%nat, (ex_M (1, 2) 1000 :: pattern_data 1 37 ++ [ex_M (1, 2) 1038])%list).
Proof. exact ex_write_permuted_repeated. Qed.

Example C07_field_fill_link_instances :
  field_find "vcpu_base" sv_fields = Some (sv_vcpu_base_offset, 4) /\
  field_find "app_name" vcpu_fields = Some (72, 16) /\
  fill_uses_write 4097 3 = true /\ fill_uses_write 4096 8 = false /\
  match mc_fill (mk_env 16 ex_nbr) ex_M (1, 2) 0 4096 287454020 8 with
  | Ok (tr, M') => Some (List.length tr, mem_range (M' (1, 2)) 4096 8)
  | _ => None
  end = Some (1%nat, [68; 51; 34; 17; 68; 51; 34; 17]) /\
  match mc_read_link (mk_env 18 ex_nbr) ex_M (1, 2) 4096 40 1 with
  | Ok (tr, out) => Some (List.length tr, out)
  | _ => None
  end = Some (3%nat, mem_range (ex_M (2, 3)) 4096 40).
Proof. exact ex_field_instances. Qed.

Example C07_guards_needed :
  (mc_read_link (mk_env 3 ex_nbr) ex_M (1, 2) 4096 8 0 = OutOfFuel /\
   mc_write_link (mk_env 3 ex_nbr) ex_M (1, 2) 4096 0 (pattern_data 1 4) = OutOfFuel) /\
  (sc_read (mk_env 0 ex_nbr) ex_M (1, 2) 0 4096 1 = OutOfFuel /\
   sc_write (mk_env 0 ex_nbr) ex_M (1, 2) 0 4096 [7] = OutOfFuel).
Proof. exact (conj ex_link_guard_needed ex_buffer_guard_needed). Qed.

Example C07_error_branches :
  sc_read (mk_env 16 ex_nbr) ex_M (1, 2) 0 4096 (-1) = OtherError /\
  sc_read (mk_env 16 ex_nbr) ex_M (1, 2) 0 (2 ^ 32) 4 = OtherError /\
  sc_write (mk_env 16 ex_nbr) ex_M (1, 2) 0 (-1) [1; 2; 3] = OtherError /\
  mc_fill (mk_env 16 ex_nbr) ex_M (1, 2) 0 4097 256 3 = OtherError /\
  mc_read_struct (mk_env 16 ex_nbr) ex_M (1, 2) 0 "no_such_field" = OtherError.
Proof. exact ex_error_branches. Qed.
