From Coq Require Import ZArith List Bool String.
Require Import Rig.Model.Base Rig.Generated.GenSignatures Rig.Generated.GenCtxGeometry Rig.Model.Context Rig.Spec.Context.
Import ListNotations.
Open Scope string_scope.
Open Scope list_scope.
Open Scope Z_scope.

Lemma every_signature_has_a_body :
  forallb (fun sg => match body_of (sg_cls sg) (sg_name sg) with Some _ => true | None => false end)
          all_signatures = true.
Proof. vm_compute. reflexivity. Qed.
