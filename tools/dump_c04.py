"""Dump the live rig.routing_table.Routes enumeration as Coq literals (unit GenTableEnums)."""
import warnings
warnings.simplefilter("ignore")
import dumplib as D  # noqa: E402
from rig.routing_table import Routes

out = [D.HEADER % "dump_c04.py"]
members = sorted(Routes, key=int)
out.append("(* every member of Routes with its is_link flag *)\n")
out.append(D.definition("routes_is_link", "list (Z * bool)",
                        D.lst(D.pair(D.z(r), "true" if r.is_link else "false") for r in members)))
out.append("(* Routes.opposite of every member that has one (it raises ValueError on the others) *)\n")
opp = []
for r in members:
    try:
        opp.append(D.pair(D.z(r), D.z(r.opposite)))
    except ValueError:
        pass
out.append(D.definition("routes_opposite", "list (Z * Z)", D.lst(opp)))
out.append(D.definition("routes_count", "Z", D.z(len(members))))
print("".join(out))
