(* C06 -- SCP bursts complete each command exactly once despite loss and reordering.

   Objects (Model/SCP.v): [burst cf cmds evs k] runs SCPConnection.send_scp_burst (send_scp = one command,
   window 1) on the connection state k (sequence generator, clock, socket buffer left by earlier calls) with
   the configuration cf = (window, tries, default timeout, and the time user code takes: per command, how long
   the command iterable needs to yield it and how long its callback runs), the commands cmds (identity, extra
   timeout) and
   the environment evs : one event per select = (datagrams that arrived, clock after the select).  It returns
   the trace (sock.send, select, sock.recv, callback invocations, in order), the outcome (Returned /
   RaisedTimeout c / RaisedFatal rc c / ...), the connection afterwards and the unused events.
   Loss = a datagram never listed, duplication = listed twice, delay / reordering = listed later; replies
   of earlier calls arrive through k_buf and the events.  The theorems hold for EVERY event list, burst,
   window 1..2^16, tries >= 1, extra timeouts and connection state; none is bounded.
   The model is tied to rig/machine_control/scp_connection.py on every run by exact trace equality against
   the real code on fault schedules (harness/c06.py), and its constants (return codes, retryable set,
   sequence mask) are regenerated from the live modules (Generated/GenSCP.v). *)
(* Notes on the statements.
   * select_honest (Spec/SCP.v) is phrased along the model's own pre/post: "the k-th select, given the timeout the
     model computes, returns with data or after MORE than that timeout".  It is a hypothesis on the environment's
     answers to the requests the code makes, not on the trace alone; the timeouts it refers to are the OSelect
     values of the trace (compared with the real select arguments by the correspondence run).
   * The inequality is strict (now + timeout < clock after select) because the code's expiry test is strict
     (timeout_time < current_time): a select that returns exactly at the deadline on an unchanged clock expires
     nothing, the next select is given 0, and with a clock that never passes the deadline the loop spins for ever --
     termination genuinely needs the clock to get past the deadline, so <= would make C06_termination false.
   * retransmissions_spaced measures from the clock reading that sets the deadline; the model sends at that same
     reading (in the code sock.send follows time.time() with no user code in between).
   * Not covered by a theorem (decided by the harness oracle only): the per-call buffer size / receive length
     (a callback gets the whole datagram), the fields of the packet send_scp returns, byte layout of requests
     (the correspondence names a datagram "command c" only if all its bytes but the sequence number are c's),
     arrival instants finer than "delivered by this select".
   * C06_reply_matches needs Causal and Fresh; users of C06 (C07's burst composition) inherit these hypotheses. *)
From Coq Require Import ZArith List Bool.
Require Import Rig.Generated.GenSCP Rig.Generated.GenSCPShape Rig.Model.Base Rig.Model.SCP Rig.Model.SCPSource Rig.Spec.SCP.
Require Import Rig.Proofs.SCP Rig.Proofs.SCPReply Rig.Proofs.SCPTerm Rig.Proofs.SCPWitness Rig.Proofs.SCPDrain.
Import ListNotations.
Open Scope Z_scope.

(* ---- "completes having invoked each command's callback exactly once" *)
(* a call that returns normally has invoked the callback of every command as often as the command occurs in
   the burst (no hypothesis at all) ... *)
Theorem C06_completion :
  forall cf cmds evs k tr k' rest,
    burst cf cmds evs k = (tr, Returned, k', rest) ->
    forall c, n_callbacks c tr = occurrences c (ids cmds).
Proof. exact completion. Qed.

(* ... i.e. exactly once when the commands are distinct, and no other callback *)
Theorem C06_completion_exactly_once :
  forall cf cmds evs k tr k' rest,
    NoDup (ids cmds) ->
    burst cf cmds evs k = (tr, Returned, k', rest) ->
    (forall c, In c (ids cmds) -> n_callbacks c tr = 1%nat) /\
    (forall c, ~ In c (ids cmds) -> n_callbacks c tr = 0%nat).
Proof. exact completion_exactly_once. Qed.

(* however the call ends (return, either error, still running), no callback has been invoked twice *)
Theorem C06_callback_at_most_once :
  forall cf cmds evs k tr oc k' rest,
    burst cf cmds evs k = (tr, oc, k', rest) ->
    forall c, (n_callbacks c tr <= occurrences c (ids cmds))%nat.
Proof. exact callback_at_most_once. Qed.

(* ---- "... with the reply to that very command" *)
(* [past]: everything that happened on the connection before the call.  Causal: the network does not invent
   datagrams (each received datagram was caused by the earlier transmission it names and echoes its sequence
   number).  Fresh: no reply is delivered after its sequence number was re-issued to a later command.
   Then every callback receives an OK reply caused by a transmission of its own command. *)
Theorem C06_reply_matches :
  forall cf cmds evs k past tr oc k' rest,
    config_ok cf -> NoDup (ids cmds) -> history_ok past k cmds ->
    burst cf cmds evs k = (tr, oc, k', rest) ->
    causal (past ++ tr) -> fresh (past ++ tr) ->
    forall c d, In (OCallback c d) tr -> reply_to (past ++ tr) c d.
Proof. exact reply_matches. Qed.

(* Without Fresh the clause is FALSE of the faithful model (and of the code: known finding K2, replayed on the
   real SCPConnection by harness/c06.py, key seq-wrap-stale-duplicate): window 1, 65 537 commands, the reply to
   the first transmission duplicated and the copy delivered when sequence number 0 has come round. *)
Theorem C06_reply_matches_without_fresh_refuted :
  exists cf cmds evs k past tr k' rest c d,
    config_ok cf /\ NoDup (ids cmds) /\ history_ok past k cmds /\
    burst cf cmds evs k = (tr, Returned, k', rest) /\
    causal (past ++ tr) /\
    In (OCallback c d) tr /\ ~ reply_to (past ++ tr) c d /\
    c = 65536 /\ d_src d = 0 /\ In (OSend 0 0 0 0) tr.
Proof. exact reply_matches_without_fresh_refuted. Qed.

(* ---- "or raises the timeout error for a command that was transmitted exactly the configured number of tries
        without its reply being received" *)
Theorem C06_timeout_exact :
  forall cf cmds evs k tr c k' rest,
    config_ok cf -> NoDup (ids cmds) ->
    burst cf cmds evs k = (tr, RaisedTimeout c, k', rest) ->
    In c (ids cmds) /\ Z.of_nat (n_sends c tr) = cf_tries cf /\ never_answered c tr.
Proof. exact timeout_exact. Qed.

(* ---- "at no time are more than the window size of commands unanswered" (every prefix of the trace) *)
Theorem C06_window_inv :
  forall cf cmds evs k tr oc k' rest,
    config_ok cf -> NoDup (ids cmds) ->
    burst cf cmds evs k = (tr, oc, k', rest) ->
    window_respected (cf_window cf) tr.
Proof. exact window_inv. Qed.

(* ---- "no command is retransmitted before its timeout has elapsed or more often than the configured tries" *)
Theorem C06_tries_inv :
  forall cf cmds evs k tr oc k' rest,
    config_ok cf -> NoDup (ids cmds) ->
    burst cf cmds evs k = (tr, oc, k', rest) ->
    (forall c, Z.of_nat (n_sends c tr) <= cf_tries cf) /\ retransmissions_spaced cf cmds tr.
Proof. exact tries_inv. Qed.

(* ---- "a fatal return code raises the fatal-return-code error" *)
(* a received datagram whose code is neither OK nor retryable is the last thing the call does, and the call
   ends with FatalReturnCodeError carrying that code; nothing fatal was received before it *)
Theorem C06_fatal_raises :
  forall cf cmds evs k tr oc k' rest,
    burst cf cmds evs k = (tr, oc, k', rest) ->
    forall d, In (ORecv d) tr -> fatal_rc (d_rc d) ->
    exists tr1 c, tr = tr1 ++ [ORecv d] /\ oc = RaisedFatal (d_rc d) c /\
                  (forall d', In (ORecv d') tr1 -> ~ fatal_rc (d_rc d')).
Proof. exact fatal_raises. Qed.

(* that error has no other cause (in particular a retryable busy / checksum code never raises it) *)
Theorem C06_fatal_only_from_datagram :
  forall cf cmds evs k tr rc c k' rest,
    burst cf cmds evs k = (tr, RaisedFatal rc c, k', rest) ->
    exists tr1 d, tr = tr1 ++ [ORecv d] /\ d_rc d = rc /\ fatal_rc rc.
Proof. exact fatal_only_from_datagram. Qed.

(* with the current tables of consts.py the constructor of FatalReturnCodeError cannot itself fail *)
Theorem C06_no_key_error :
  forall cf cmds evs k tr rc k' rest,
    burst cf cmds evs k <> (tr, RaisedKeyError rc, k', rest).
Proof. exact no_key_error. Qed.

(* ---- "the call always terminates" *)
(* select_honest: each select returns with data or after more than the timeout it was given.  Then the loop
   runs at most  #datagrams + #commands * (tries - 1) + 1  iterations: it never consumes more events, and given
   that many it has ended (returned or raised) *)
Theorem C06_termination :
  forall cf cmds evs k tr oc k' rest,
    config_ok cf ->
    select_honest cf evs k (bstate0 cmds) ->
    burst cf cmds evs k = (tr, oc, k', rest) ->
    Z.of_nat (length evs) - Z.of_nat (length rest)
      <= Z.of_nat (datagrams k evs) + Z.of_nat (length cmds) * (cf_tries cf - 1) + 1
    /\ (Z.of_nat (datagrams k evs) + Z.of_nat (length cmds) * (cf_tries cf - 1) + 1 <= Z.of_nat (length evs) ->
        oc <> NeedEvent).
Proof. exact termination. Qed.

(* the three endings, in one place: with an honest select and enough events a call returns, or raises the
   timeout error, or raises the fatal-return-code error -- nothing else (no other exception, no endless loop) *)
Theorem C06_outcome_dichotomy :
  forall cf cmds evs k tr oc k' rest,
    config_ok cf -> 0 <= k_seq k < 65536 ->
    select_honest cf evs k (bstate0 cmds) ->
    Z.of_nat (datagrams k evs) + Z.of_nat (length cmds) * (cf_tries cf - 1) + 1 <= Z.of_nat (length evs) ->
    burst cf cmds evs k = (tr, oc, k', rest) ->
    oc = Returned \/ (exists c, oc = RaisedTimeout c) \/ (exists rc c, oc = RaisedFatal rc c).
Proof. exact outcome_dichotomy. Qed.

(* the inner loop `while seq in outstanding_packets` always exits (window <= 2^16: a number is free) *)
Theorem C06_no_seq_divergence :
  forall cf cmds evs k tr oc k' rest,
    config_ok cf -> 0 <= k_seq k < 65536 ->
    burst cf cmds evs k = (tr, oc, k', rest) -> oc <> SeqSearchDiverges.
Proof. exact no_divergence. Qed.

(* ---- "... without its reply being received": the retransmission scan never overlooks a delivered reply *)
(* whatever the outcome, the datagrams read so far followed by those still in the socket are exactly what the
   socket held at the start followed by what the consumed events delivered, in order; the timeout error is
   raised with the socket empty *)
Theorem C06_datagrams_read_in_order :
  forall cf evs k b tr oc k' rest,
    run cf evs k b = (tr, oc, k', rest) ->
    exists consumed, evs = consumed ++ rest /\ recvs tr ++ k_buf k' = delivered k consumed
                     /\ ((exists c, oc = RaisedTimeout c) -> k_buf k' = []).
Proof. exact datagrams_read_in_order. Qed.

(* so when TimeoutError is raised every datagram delivered up to the last select -- also those that arrived
   while the command iterable or a callback kept the thread, or queued behind a busy reply -- has been read
   (and by C06_timeout_exact none read since the command's first transmission was an OK reply with its number) *)
Theorem C06_timeout_socket_drained :
  forall cf cmds evs k tr c k' rest,
    burst cf cmds evs k = (tr, RaisedTimeout c, k', rest) ->
    exists consumed, evs = consumed ++ rest /\ recvs tr = delivered k consumed /\ k_buf k' = [].
Proof. exact timeout_socket_drained. Qed.

(* ---- a retransmission is the datagram of the first transmission: all transmissions of a command carry one
        sequence number (the harness names a real datagram "command c" only if all its other bytes are c's as
        submitted, also when the caller reuses one mutable payload buffer) *)
Theorem C06_retransmission_identical :
  forall cf cmds evs k tr oc k' rest,
    config_ok cf -> NoDup (ids cmds) ->
    burst cf cmds evs k = (tr, oc, k', rest) ->
    forall tx c s t tx' s' t', In (OSend tx c s t) tr -> In (OSend tx' c s' t') tr -> s = s'.
Proof. exact retransmission_identical. Qed.

(* ---- the statements of send_scp_burst / send_scp / seqs in the current /repo (re-extracted from the ast on
        every run, fail closed) are the ones the model was written from *)
Example C06_source_shape :
  shape_send_scp_burst = mirrored_send_scp_burst /\ shape_send_scp = mirrored_send_scp /\ shape_init = mirrored_init
  /\ shape_seqs = mirrored_seqs.
Proof. exact source_shape. Qed.

(* ---- the constants the model takes from the source (regenerated on every run) *)
Example C06_constants :
  rc_ok = 128 /\ retryable_codes = [130; 141] /\ seq_mask = 65535 /\ seq_first_values = [0; 1; 2; 3]
  /\ sdp_header_length + 2 = 10.
Proof. repeat split; reflexivity. Qed.

(* ---- the hypotheses are satisfiable: a run with a late reply, a duplicate, a busy answer and two
        retransmissions meets all of them (and returns); a timeout and a fatal ending exist *)
Example C06_hypotheses_satisfiable :
  config_ok ex_cf /\ NoDup (ids ex_cmds) /\ history_ok [] conn0 ex_cmds /\ 0 <= k_seq conn0 < 65536 /\
  select_honest ex_cf ex_events conn0 (bstate0 ex_cmds) /\
  Z.of_nat (datagrams conn0 ex_events) + Z.of_nat (length ex_cmds) * (cf_tries ex_cf - 1) + 1
    <= Z.of_nat (length ex_events) /\
  exists tr k' rest,
    burst ex_cf ex_cmds ex_events conn0 = (tr, Returned, k', rest) /\ causal ([] ++ tr) /\ fresh ([] ++ tr) /\
    n_sends 0 tr = 2%nat /\ n_sends 1 tr = 2%nat /\ length rest = 6%nat.
Proof. exact ex_satisfiable. Qed.

(* two calls on ONE connection with a non-empty history: the first call's command is answered late, retransmitted
   and completed; the late reply to its first transmission is delivered during the second call and ignored
   there; history_ok, Causal and Fresh hold of the joint history (so C06_reply_matches applies to call 2) *)
Example C06_two_calls_history_satisfiable :
  exists tr1 k1 rest1 tr2 k2 rest2,
    burst ex2_cf1 ex2_cmds1 ex2_events1 conn0 = (tr1, Returned, k1, rest1) /\
    burst ex2_cf2 ex2_cmds2 ex2_events2 k1 = (tr2, Returned, k2, rest2) /\
    config_ok ex2_cf2 /\ NoDup (ids ex2_cmds2) /\
    history_ok tr1 k1 ex2_cmds2 /\ In (OSend 0 0 0 0) tr1 /\ In (OSend 1 0 0 11) tr1 /\
    causal (tr1 ++ tr2) /\ fresh (tr1 ++ tr2) /\
    In (ORecv (Dg 128 0 0)) tr2 /\ ~ In (ORecv (Dg 128 0 0)) tr1.
Proof. exact ex_two_calls. Qed.

Example C06_timeout_outcome_exists :
  exists tr k' rest, burst (Cf 1 2 10 [] []) [Cmd 7 0] [Ev [] 11; Ev [] 22] conn0 = (tr, RaisedTimeout 7, k', rest).
Proof. exact ex_timeout. Qed.

Example C06_fatal_outcome_exists :
  exists tr k' rest,
    burst (Cf 1 2 10 [] []) [Cmd 7 0] [Ev [Dg rc_cpu 0 0] 1] conn0 = (tr, RaisedFatal rc_cpu (Some 7), k', rest).
Proof. exact ex_fatal. Qed.
