From Coq Require Import ZArith List Bool.
Require Import Rig.Generated.GenLoad Rig.Model.Base Rig.Model.Load Rig.Spec.Load Rig.Proofs.Load.
Import ListNotations.
Open Scope Z_scope.

Theorem C09_next_nn_id_range : forall v, 0 <= v <= 126 -> 1 <= next_nn_id v <= 126.
Proof. exact next_nn_id_range. Qed.
