(* Proofs for C17: the memo is transparent; copied defaults are never changed. *)
From Coq Require Import ZArith List String Bool Lia.
Require Import Rig.Model.Base Rig.Model.Geometry Rig.Model.LibState.
Import ListNotations.
Open Scope Z_scope.

Lemma zassoc_zupdate_same {A} (k : Z) (v : A) (l : list (Z * A)) :
  zassoc k (zupdate k v l) = Some v.
Proof.
  induction l as [|[k' v'] l IH]; cbn [zupdate zassoc].
  - rewrite Z.eqb_refl. reflexivity.
  - destruct (k =? k') eqn:E; cbn [zassoc]; rewrite ?E, ?Z.eqb_refl; auto.
Qed.

Lemma zassoc_zupdate_other {A} (k k0 : Z) (v : A) (l : list (Z * A)) :
  k0 <> k -> zassoc k0 (zupdate k v l) = zassoc k0 l.
Proof.
  intros Hne. induction l as [|[k' v'] l IH]; cbn [zupdate zassoc].
  - destruct (k0 =? k) eqn:E; [apply Z.eqb_eq in E; contradiction | reflexivity].
  - destruct (k =? k') eqn:E; cbn [zassoc].
    + apply Z.eqb_eq in E. subst k'.
      destruct (k0 =? k) eqn:E2; [apply Z.eqb_eq in E2; contradiction | reflexivity].
    + destruct (k0 =? k'); auto.
Qed.

(* the cache invariant: everything stored is what f computes *)
Definition memo_inv {A} (f : Z -> A) (m : memo A) : Prop :=
  forall r v, zassoc r m = Some v -> v = f r.

Lemma memo_inv_nil {A} (f : Z -> A) : memo_inv f [].
Proof. intros r v H. discriminate H. Qed.

Lemma memo_call_inv {A} (f : Z -> A) m r :
  memo_inv f m -> memo_inv f (snd (memo_call f m r)).
Proof.
  intros Hinv. unfold memo_call. destruct (zassoc r m) eqn:E; cbn [snd]; [exact Hinv|].
  intros r0 v Hr0. destruct (Z.eq_dec r0 r) as [->|Hne].
  - rewrite zassoc_zupdate_same in Hr0. congruence.
  - rewrite zassoc_zupdate_other in Hr0 by exact Hne. apply Hinv; exact Hr0.
Qed.

Lemma memo_after_inv {A} (f : Z -> A) history : memo_inv f (memo_after f history).
Proof.
  unfold memo_after.
  assert (G : forall m, memo_inv f m ->
                        memo_inv f (fold_left (fun m r => snd (memo_call f m r)) history m)).
  { induction history as [|r rs IH]; intros m Hm; cbn [fold_left]; [exact Hm|].
    apply IH. apply memo_call_inv; exact Hm. }
  apply G. apply memo_inv_nil.
Qed.

Lemma memo_call_result {A} (f : Z -> A) m r : memo_inv f m -> fst (memo_call f m r) = f r.
Proof.
  intros Hinv. unfold memo_call. destruct (zassoc r m) eqn:E; cbn [fst]; [|reflexivity].
  apply Hinv; exact E.
Qed.

Lemma memo_transparent {A} (f : Z -> A) (history : list Z) (r : Z) :
  fst (memo_call f (memo_after f history) r) = fst (memo_call f (memo_after f []) r).
Proof.
  rewrite (memo_call_result f (memo_after f history)) by apply memo_after_inv.
  rewrite (memo_call_result f (memo_after f [])) by apply memo_after_inv.
  reflexivity.
Qed.

Lemma memo_returns_f {A} (f : Z -> A) (history : list Z) (r : Z) :
  fst (memo_call f (memo_after f history) r) = f r.
Proof. apply memo_call_result. apply memo_after_inv. Qed.

Lemma default_untouched {S} (default : S) (arg : option S) (write : S -> S) :
  snd (call_with_default default arg write) = default.
Proof. reflexivity. Qed.

(* ---- defaults as heap cells ---- *)
Lemma default_after_copies {S} (history : list ((S -> S) * option S)) (cell0 : S) :
  default_after Copies history cell0 = cell0.
Proof.
  unfold default_after. induction history as [|[w a] hs IH]; cbn [fold_left]; [reflexivity|].
  replace (snd (default_call Copies (fst (w, a)) cell0 (snd (w, a)))) with cell0; [exact IH|].
  cbn [fst snd]. destruct a; reflexivity.
Qed.

(* under the copying discipline a call's outcome does not depend on what was called before, and the default
   object is never changed *)
Lemma copies_history_independent {S} (history : list ((S -> S) * option S)) (cell0 : S) (w : S -> S) (arg : option S) :
  default_call Copies w (default_after Copies history cell0) arg = default_call Copies w cell0 arg.
Proof. rewrite default_after_copies. reflexivity. Qed.

(* under the aliasing discipline it does: an earlier call that relied on the default leaks its write into a later
   one (the shape of boot(sv_overrides=dict()) as found: options of one boot appear in the next) *)
Lemma aliases_history_dependent :
  exists (history : list ((Z -> Z) * option Z)) (cell0 : Z) (w : Z -> Z),
    fst (default_call Aliases w (default_after Aliases history cell0) None)
    <> fst (default_call Aliases w cell0 None)
    /\ default_after Aliases history cell0 <> cell0.
Proof.
  exists [((fun x => x + 1), None)], 0, (fun x => x + 1). split; vm_compute; discriminate.
Qed.

(* with an explicit argument neither discipline touches the default object *)
Lemma explicit_argument_never_touches_default {S} (d : discipline) (w : S -> S) (cell a : S) :
  snd (default_call d w cell (Some a)) = cell.
Proof. destruct d; reflexivity. Qed.

(* the router's memo: after any history of radii, asking for radius r yields geometry's concentric_hexagons r (0,0),
   which is the expression Model/Route.v evaluates directly (so the memo can be dropped from the router model) *)
Lemma ner_memo_transparent (history : list Z) (r : Z) :
  fst (ner_memo_call (memo_after (fun r => concentric_hexagons r (0, 0)) history) r) = concentric_hexagons r (0, 0).
Proof. unfold ner_memo_call. exact (memo_returns_f (fun r0 => concentric_hexagons r0 (0, 0)) history r). Qed.

Lemma accounted_consistent : forallb class_consistent accounted = true.
Proof. vm_compute. reflexivity. Qed.
