(* C07, controller state: the struct tables a MachineController works with are STATE -- set from the bundled
   struct file by __init__ and REPLACED by boot() with the tables of the struct file the machine was booted
   with (Generated/GenMemOps.v boot_replaces_structs re-extracts that shape on every run).  The address of a
   field is base + offset per the CURRENT tables.  Also: the bridge from C06's burst model (Model/SCP.v) to the
   execution / callback orders of Model/MemOps.v.  Definitions only. *)
From Coq Require Import ZArith List Bool String.
Require Import Rig.Generated.GenMemOps Rig.Generated.GenSCP Rig.Model.Base Rig.Model.Machine Rig.Model.MemOps
  Rig.Spec.MemOps.
Require Rig.Model.SCP.
Import ListNotations.
Open Scope Z_scope.

(* the part of a parsed struct file the accessors use: (name, (offset, byte size of the accessor's format)) *)
Record sfile := { sf_sv_base : Z; sf_sv : list (string * (Z * Z));
                  sf_vcpu_size : Z; sf_vcpu : list (string * (Z * Z)) }.

Definition default_sfile : sfile :=
  {| sf_sv_base := sv_struct_base; sf_sv := sv_fields; sf_vcpu_size := vcpu_struct_size; sf_vcpu := vcpu_fields |}.

Record controller := { ctl_structs : sfile }.

Definition ctl_new : controller := {| ctl_structs := default_sfile |}.                 (* __init__(structs=None) *)
Definition ctl_boot (S : sfile) (ct : controller) : controller := {| ctl_structs := S |}.  (* boot(sark_struct=...) *)

Definition st_read_struct (ct : controller) (E : env) (M : machine) (c : chip) (core : Z) (name : string)
  : result (list request * list Z) :=
  match field_find name (sf_sv (ctl_structs ct)) with
  | None => OtherError
  | Some (off, n) => sc_read E M c core (struct_field_address (sf_sv_base (ctl_structs ct)) off) n
  end.

Definition st_write_struct (ct : controller) (E : env) (M : machine) (c : chip) (core : Z) (name : string)
  (data : list Z) : result (list request * machine) :=
  match field_find name (sf_sv (ctl_structs ct)) with
  | None => OtherError
  | Some (off, _) => sc_write E M c core (struct_field_address (sf_sv_base (ctl_structs ct)) off) data
  end.

Definition st_vcpu_address (ct : controller) (E : env) (M : machine) (c : chip) (p : Z) (name : string)
  : result (list request * Z * Z) :=
  match field_find name (sf_vcpu (ctl_structs ct)) with
  | None => OtherError
  | Some (off, n) =>
      bind (st_read_struct ct E M c vcpu_access_core "vcpu_base") (fun '(tr, b) =>
        Ok (tr, vcpu_field_address (le_word b) (sf_vcpu_size (ctl_structs ct)) p off, n))
  end.

Definition st_read_vcpu (ct : controller) (E : env) (M : machine) (c : chip) (p : Z) (name : string)
  : result (list request * list Z) :=
  bind (st_vcpu_address ct E M c p name) (fun '(tr, a, n) =>
  bind (sc_read E M c vcpu_access_core a n) (fun '(tr', out) => Ok (tr ++ tr', out))).

Definition st_write_vcpu (ct : controller) (E : env) (M : machine) (c : chip) (p : Z) (name : string)
  (data : list Z) : result (list request * machine) :=
  bind (st_vcpu_address ct E M c p name) (fun '(tr, a, _) =>
  bind (sc_write E M c vcpu_access_core a data) (fun '(tr', M') => Ok (tr ++ tr', M'))).

(* one call of a controller in state ct *)
Definition st_run_op (ct : controller) (E : env) (M : machine) (c : chip) (o : op)
  : result (list request * list Z * machine) :=
  let rd r := bind r (fun '(tr, out) => Ok (tr, out, M)) in
  let wr r := bind r (fun '(tr, M') => Ok (tr, @nil Z, M')) in
  match o with
  | OpReadStruct core f => rd (st_read_struct ct E M c core f)
  | OpWriteStruct core f d => wr (st_write_struct ct E M c core f d)
  | OpReadVcpu p f => rd (st_read_vcpu ct E M c p f)
  | OpWriteVcpu p f d => wr (st_write_vcpu ct E M c p f d)
  | _ => run_op E M c o
  end.

(* a history of one controller: boot(sark_struct=...) and the direct assignment mc.structs = ... both replace the
   tables; calls in between use the tables current at the time *)
Inductive hstep :=
| HBoot (F : sfile)
| HAssign (F : sfile)
| HCall (c : chip) (o : op).

Definition ctl_apply (ct : controller) (s : hstep) : controller :=
  match s with
  | HBoot F | HAssign F => ctl_boot F ct
  | HCall _ _ => ct
  end.

Definition last_structs (steps : list hstep) (d : sfile) : sfile :=
  fold_left (fun cur s => match s with HBoot F | HAssign F => F | HCall _ _ => cur end) steps d.

(* ---- from a burst of C06's model to an order of Model/MemOps.v ----
   The chunk list of one read / write is handed to send_scp_burst as commands 0, 1, ..., n-1 (their identity is
   their position); the callbacks the burst invokes, in the order it invokes them, are the order in which the
   chunks complete.  The connection state k (its sequence counter anywhere in 0 .. 65535, the wrap included),
   the window, the event list (losses, delays, duplicates) are arbitrary. *)
Definition burst_cmds (n : nat) : list SCP.cmd := map (fun i => SCP.Cmd (Z.of_nat i) 0) (seq 0 n).

Definition callback_ids (tr : list SCP.output) : list Z :=
  flat_map (fun o => match o with SCP.OCallback c _ => [c] | _ => [] end) tr.

Definition order_of {A} (cs : list A) (tr : list SCP.output) : list A :=
  flat_map (fun c => match nth_error cs (Z.to_nat c) with Some x => [x] | None => [] end) (callback_ids tr).

(* Which reply does a callback get?  The datagram d handed to the callback of command c names the transmission
   that caused it (d_src d; C06's `causal`); the command that transmission carried OWNS the reply: the machine
   answered THAT command.  [owner_of hist tx] is the command of transmission tx in the history of the connection. *)
Fixpoint owner_of (hist : list SCP.output) (tx : Z) : option Z :=
  match hist with
  | [] => None
  | SCP.OSend tx' c _ _ :: rest => if tx' =? tx then Some c else owner_of rest tx
  | _ :: rest => owner_of rest tx
  end.

Definition callbacks (tr : list SCP.output) : list (Z * SCP.dgram) :=
  flat_map (fun o => match o with SCP.OCallback c d => [(c, d)] | _ => [] end) tr.

(* every callback of tr received the reply to its own command.  C06 proves this of send_scp_burst under `causal`
   and `fresh` (C06_reply_matches: the datagram was caused by a transmission of c) and REFUTES it without `fresh`
   (C06_reply_matches_without_fresh_refuted: a duplicate delivered after its 16-bit sequence number has come round
   completes a later command) *)
Definition own_replies (hist tr : list SCP.output) : bool :=
  forallb (fun cd => match owner_of hist (SCP.d_src (snd cd)) with
                     | Some c' => c' =? fst cd
                     | None => false
                     end) (callbacks tr).

(* (chunk whose callback runs, chunk whose reply it is handed), in the order of the callbacks *)
Definition served {A} (cs : list A) (hist tr : list SCP.output) : list (A * A) :=
  flat_map (fun cd =>
              match nth_error cs (Z.to_nat (fst cd)), owner_of hist (SCP.d_src (snd cd)) with
              | Some x, Some c' => match nth_error cs (Z.to_nat c') with Some y => [(x, y)] | None => [] end
              | _, _ => []
              end) (callbacks tr).

(* the callbacks run one after the other: the callback of chunk [fst] writes, into ITS slice of the buffer, the
   payload of the reply to the command of chunk [snd] *)
Fixpoint read_run_served (E : env) (M : machine) (c : chip) (core : Z) (pairs : list (rchunk * rchunk))
  (buf : list Z) : result (list request * list Z) :=
  match pairs with
  | [] => Ok ([], buf)
  | (slot, payload) :: rest =>
      bind (issue E M c core (rk_call payload)) (fun '(M', r, d) =>
      bind (splice buf (rk_lo slot) (rk_hi slot) d) (fun buf' =>
      bind (read_run_served E M' c core rest buf') (fun '(tr, out) => Ok (r :: tr, out))))
  end.

(* SCPConnection.read over a burst, [past] being what happened on the connection before: the exception of the
   burst propagates (Failed rc_timeout: TimeoutError, Failed rc: FatalReturnCodeError, OtherError: the constructor's
   KeyError; OutOfFuel: the modelled run did not end) -- `return bytes(data)` is only reached when the burst
   returned; each callback splices the reply it was actually handed *)
Definition sc_read_burst (cf : SCP.config) (evs : list SCP.event) (k : SCP.conn) (past : list SCP.output)
  (E : env) (M : machine) (c : chip) (core address length : Z) : result (list request * list Z) :=
  if length <? 0 then OtherError
  else bind (read_chunks address length (e_buffer E)) (fun cs =>
    match SCP.burst cf (burst_cmds (List.length cs)) evs k with
    | (tr, SCP.Returned, _, _) =>
        read_run_served E M c core (served cs (past ++ tr) tr) (repeat 0 (Z.to_nat length))
    | (_, SCP.RaisedTimeout _, _, _) => Failed rc_timeout
    | (_, SCP.RaisedFatal rc _, _, _) => Failed rc
    | (_, SCP.RaisedKeyError _, _, _) => OtherError
    | (_, _, _, _) => OutOfFuel
    end).

(* ---- predicates the theorems of Props/C07.v are stated with ---- *)
Definition sfile_ok (S : sfile) : Prop :=
  (forall name off n, field_find name (sf_sv S) = Some (off, n) ->
     0 <= sf_sv_base S + off /\ 0 <= n /\ sf_sv_base S + off + n <= 2 ^ 32) /\
  (forall name off n, field_find name (sf_vcpu S) = Some (off, n) -> 0 <= off /\ 0 <= n).

(* the address of a per-core field per the CURRENT tables: the word stored in the current sv.vcpu_base +
   current block size * core + current field offset *)
Definition st_vcpu_addr (S : sfile) (vboff : Z) (M : machine) (c : chip) (p off : Z) : Z :=
  le_word (mem_range (M c) (sf_sv_base S + vboff) 4) + sf_vcpu_size S * p + off.

(* C06's conclusion gives own_replies once transmission numbers name transmissions (C06's model numbers them with
   the connection's counter k_ntx) *)
Definition tx_unique (hist : list SCP.output) : Prop :=
  forall tx c c' s s' t t', In (SCP.OSend tx c s t) hist -> In (SCP.OSend tx c' s' t') hist -> c = c'.

