(* What C05 asks of the allocator, stated on the inputs and the returned allocation only
   (no reference to how the model computes).  Definitions only. *)
From Coq Require Import ZArith List Bool Permutation.
Require Import Rig.Generated.GenAlloc Rig.Model.Base Rig.Model.Alloc.
Import ListNotations.
Open Scope Z_scope.

Definition aligns_positive (cs : list constr) : Prop :=
  forall r a, In (CAlign r a) cs -> 0 < a.

Definition requests_nonneg (vres : list (vertex * list (res * Z))) : Prop :=
  forall v reqs r q, In (v, reqs) vres -> In (r, q) reqs -> 0 <= q.

(* every range reserved for resource r as seen from chip xy: global ones and the chip's own *)
Definition reservations (r : res) (xy : chip) (cs : list constr) : list slice :=
  global_reserved r cs ++ local_reserved xy r cs.

(* one returned range [sl] for a request of [req] units of [r] on chip [xy] *)
Definition range_ok (m : machine) (cs : list constr) (xy : chip) (r : res) (req : Z) (sl : slice) : Prop :=
  snd sl - fst sl = req                                   (* exactly the requested size *)
  /\ 0 <= fst sl                                          (* inside the chip's range ... *)
  /\ (exists caps cap, chip_resources m xy = Some caps /\ zassoc r caps = Some cap /\ snd sl <= cap)
  /\ fst sl mod alignment r cs = 0                        (* on the required alignment *)
  /\ (forall rs, In rs (reservations r xy cs) -> slices_overlap sl rs = false).

Definition allocation_sound (vres : list (vertex * list (res * Z))) (m : machine) (cs : list constr)
           (pl : list (vertex * chip)) (alloc : list (vertex * list (res * slice))) : Prop :=
  (* every placed vertex, and nothing else, is allocated, once *)
  Permutation (map fst alloc) (map fst pl)
  (* one range per requested resource, each satisfying range_ok on the vertex's chip *)
  /\ (forall v ra, In (v, ra) alloc ->
        exists xy reqs, In (v, xy) pl /\ zassoc v vres = Some reqs /\
          Forall2 (fun rq it => fst it = fst rq /\ range_ok m cs xy (fst rq) (snd rq) (snd it)) reqs ra)
  (* ranges of one resource given to two vertices of one chip never overlap *)
  /\ (forall v1 v2 xy ra1 ra2 r sl1 sl2,
        v1 <> v2 -> In (v1, xy) pl -> In (v2, xy) pl ->
        In (v1, ra1) alloc -> In (v2, ra2) alloc -> In (r, sl1) ra1 -> In (r, sl2) ra2 ->
        slices_overlap sl1 sl2 = false).

(* inputs on which the Python code cannot raise anything but InsufficientResourceError *)
Definition well_formed (vres : list (vertex * list (res * Z))) (m : machine) (cs : list constr)
           (pl : list (vertex * chip)) : Prop :=
  aligns_positive cs
  /\ forall v xy, In (v, xy) pl ->
       exists reqs caps, zassoc v vres = Some reqs /\ chip_resources m xy = Some caps /\
         forall r q, In (r, q) reqs -> zassoc r (m_res m) <> None /\ zassoc r caps <> None.

Definition no_alignment (cs : list constr) : Prop := forall r a, ~ In (CAlign r a) cs.

(* reservations of a resource on a chip of capacity cap lie only at the two ends: everything below
   a is reserved, nothing in [a, b) is, and whatever else is reserved lies in [b, cap) *)
Definition ends_only (rs : list slice) (cap a b : Z) : Prop :=
  0 <= a /\ a <= b /\ b <= cap
  /\ (forall r, In r rs -> fst r <= snd r /\ ((0 <= fst r /\ snd r <= a) \/ (b <= fst r /\ snd r <= cap)))
  /\ (forall x, 0 <= x < a -> exists r, In r rs /\ fst r <= x < snd r).

Definition request_of (r : res) (reqs : list (res * Z)) : Z :=
  fold_right Z.add 0 (map snd (filter (fun rq => fst rq =? r) reqs)).

Definition total_request (vres : list (vertex * list (res * Z))) (pl : list (vertex * chip))
           (xy : chip) (r : res) : Z :=
  fold_right Z.add 0
    (map (fun v => match zassoc v vres with Some reqs => request_of r reqs | None => 0 end)
         (vertices_on xy pl)).

(* the placement is feasible: on every chip, for every resource, the requests fit in the free part *)
Definition feasible_ends (vres : list (vertex * list (res * Z))) (m : machine) (cs : list constr)
           (pl : list (vertex * chip)) : Prop :=
  forall v xy, In (v, xy) pl -> forall caps r cap,
    chip_resources m xy = Some caps -> zassoc r caps = Some cap ->
    exists a b, ends_only (reservations r xy cs) cap a b /\ total_request vres pl xy r <= b - a.
