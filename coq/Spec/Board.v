(* Independent description of a machine tiled from 48-chip SpiNN-5 boards (property C19).
   Nothing here refers to rig's tables or functions.  Definitions only. *)
From Coq Require Import ZArith List Bool.
Require Import Rig.Model.Base.
Import ListNotations.
Open Scope Z_scope.

(* The hexagonal 48-chip board: the chips at offset (dx, dy) from its Ethernet-connected chip
   (the bottom-left chip) with 0 <= dx, dy <= 7, dy - dx <= 3, dx - dy <= 4. *)
Definition board_shape (dx dy : Z) : Prop :=
  0 <= dx <= 7 /\ 0 <= dy <= 7 /\ dy - dx <= 3 /\ dx - dy <= 4.

Definition board_shapeb (dx dy : Z) : bool :=
  (0 <=? dx) && (dx <=? 7) && (0 <=? dy) && (dy <=? 7) && (dy - dx <=? 3) && (dx - dy <=? 4).

(* chip c lies on the board whose Ethernet chip is e *)
Definition on_board (e c : chip) : Prop := board_shape (fst c - fst e) (snd c - snd e).

(* Three boards per 12 x 12 cell: Ethernet chips at root + (12 i, 12 j) + one of these. *)
Definition eth_offsets : list (Z * Z) := [(0, 0); (4, 8); (8, 4)].

Definition is_eth (root e : chip) : Prop :=
  exists i j d, In d eth_offsets /\
                fst e = fst root + 12 * i + fst d /\ snd e = snd root + 12 * j + snd d.

(* e is the Ethernet chip of a board that contains c, in the unbounded tiling anchored at root *)
Definition board_eth (root c e : chip) : Prop := is_eth root e /\ on_board e c.

(* A machine of w x h chips; when w and h are multiples of 12 it is a torus and coordinates wrap. *)
Definition in_machine (w h : Z) (c : chip) : Prop := 0 <= fst c < w /\ 0 <= snd c < h.
Definition wrap (w h : Z) (c : chip) : chip := (fst c mod w, snd c mod h).
Definition full_torus (w h : Z) : Prop := 0 < w /\ 0 < h /\ w mod 12 = 0 /\ h mod 12 = 0.

(* on the torus: c lies on the board of e when its wrapped offset from e has the board's shape *)
Definition on_board_torus (w h : Z) (e c : chip) : Prop :=
  board_shape ((fst c - fst e) mod w) ((snd c - snd e) mod h).

(* The six links of a chip, numbered as the hardware numbers them (anticlockwise from east). *)
Definition link_vector (l : Z) : option (Z * Z) :=
  if l =? 0 then Some (1, 0)            (* east *)
  else if l =? 1 then Some (1, 1)       (* north east *)
  else if l =? 2 then Some (0, 1)       (* north *)
  else if l =? 3 then Some (-1, 0)      (* west *)
  else if l =? 4 then Some (-1, -1)     (* south west *)
  else if l =? 5 then Some (0, -1)      (* south *)
  else None.

(* the link l of chip c leaves the board whose Ethernet chip is e (c being on that board) *)
Definition link_leaves_board (e c : chip) (l : Z) : Prop :=
  exists v, link_vector l = Some v /\ ~ on_board e (fst c + fst v, snd c + snd v).

(* (a, b) is the squarest way of arranging k three-board units: a x b = k, wider than tall,
   and no other such arrangement has sides closer together. *)
Definition squarest (k a b : Z) : Prop :=
  a * b = k /\ 1 <= b <= a /\
  forall a' b', a' * b' = k -> 1 <= b' <= a' -> a - b <= a' - b'.

(* v is representable in a signed two's-complement integer of N bits (numpy intN) *)
Definition fits (N v : Z) : Prop := - 2 ^ (N - 1) <= v < 2 ^ (N - 1).
