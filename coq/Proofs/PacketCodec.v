(* The codec theorems of C15 about Model/Packet.v: layout of the encodings, error branch of struct.pack,
   decoding of arbitrary byte strings, round trip, field isolation. *)
From Coq Require Import ZArith String List Bool Lia.
Require Import Rig.Generated.GenPackets Rig.Model.Base Rig.Model.Packet Rig.Spec.Packet Rig.Proofs.Packet.
Import ListNotations.
Open Scope Z_scope.

Ltac Zify.zify_post_hook ::= Z.to_euclidean_division_equations.

Local Definition F := formats_parse.
Lemma parse_sdp_header : parse_fmt sdp_header_fmt = Some ([FPad; FPad] ++ repeat (FUInt 1) 8).
Proof. exact (proj1 F). Qed.
Lemma parse_sdp_unpack : parse_fmt sdp_unpack_fmt = Some ([FPad; FPad] ++ repeat (FUInt 1) 8).
Proof. exact (proj1 (proj2 F)). Qed.
Lemma parse_scp_header : parse_fmt scp_header_fmt = Some [FUInt 2; FUInt 2].
Proof. exact (proj1 (proj2 (proj2 F))). Qed.
Lemma parse_scp_unpack_header : parse_fmt scp_unpack_header_fmt = Some [FUInt 2; FUInt 2].
Proof. exact (proj1 (proj2 (proj2 (proj2 F)))). Qed.
Lemma parse_pack_arg1 : parse_fmt scp_pack_arg1_fmt = Some [FUInt 4].
Proof. exact (proj1 (proj2 (proj2 (proj2 (proj2 F))))). Qed.
Lemma parse_pack_arg2 : parse_fmt scp_pack_arg2_fmt = Some [FUInt 4].
Proof. exact (proj1 (proj2 (proj2 (proj2 (proj2 (proj2 F)))))). Qed.
Lemma parse_pack_arg3 : parse_fmt scp_pack_arg3_fmt = Some [FUInt 4].
Proof. exact (proj1 (proj2 (proj2 (proj2 (proj2 (proj2 (proj2 F))))))). Qed.
Lemma parse_unpack_arg1 : parse_fmt scp_unpack_arg1_fmt = Some [FUInt 4].
Proof. exact (proj1 (proj2 (proj2 (proj2 (proj2 (proj2 (proj2 (proj2 F)))))))). Qed.
Lemma parse_unpack_arg2 : parse_fmt scp_unpack_arg2_fmt = Some [FUInt 4].
Proof. exact (proj1 (proj2 (proj2 (proj2 (proj2 (proj2 (proj2 (proj2 (proj2 F))))))))). Qed.
Lemma parse_unpack_arg3 : parse_fmt scp_unpack_arg3_fmt = Some [FUInt 4].
Proof. exact (proj2 (proj2 (proj2 (proj2 (proj2 (proj2 (proj2 (proj2 (proj2 F))))))))). Qed.

(* ================================================================== encoding: the SDP header *)
(* the eight values handed to struct.pack, with the masks and shifts of the source resolved *)
Definition hvals (p : sdp) : list Z :=
  [flag_byte (reply_expected p); tag p;
   32 * (dest_port p mod 8) + dest_cpu p mod 32; 32 * (src_port p mod 8) + src_cpu p mod 32;
   dest_y p; dest_x p; src_y p; src_x p].

(* THIS is the lemma that reads the generated expressions: order of the values, masks, shifts, flags *)
Lemma header_values_resolved : forall p,
  sdp_header_values (reply_expected p) (tag p) (dest_port p) (dest_cpu p) (src_port p) (src_cpu p)
                    (dest_x p) (dest_y p) (src_x p) (src_y p) = hvals p.
Proof.
  intros p. unfold sdp_header_values, hvals. rewrite !portcpu_byte.
  unfold flag_byte, FLAG_REPLY, FLAG_NO_REPLY. reflexivity.
Qed.

Lemma hvals_bytes : forall p, sdp_packable p <-> bytes (hvals p).
Proof.
  intros p. unfold sdp_packable, bytes, hvals. repeat rewrite Forall_cons_iff.
  assert (Hf : byte (flag_byte (reply_expected p))) by (unfold byte, flag_byte; destruct (reply_expected p); lia).
  assert (Hd : byte (32 * (dest_port p mod 8) + dest_cpu p mod 32)) by (unfold byte; lia).
  assert (Hs : byte (32 * (src_port p mod 8) + src_cpu p mod 32)) by (unfold byte; lia).
  split.
  - intros (Ht & Hx & Hy & Hsx & Hsy). repeat (split; [assumption|]). constructor.
  - intros (_ & Ht & _ & _ & Hy & Hx & Hsy & Hsx & _). repeat (split; [assumption|]). assumption.
Qed.

Lemma sdp_packable_dec : forall p, sdp_packable p \/ ~ sdp_packable p.
Proof. intros p. unfold sdp_packable, byte. lia. Qed.

Lemma sdp_header_ok : forall p, sdp_packable p -> sdp_header p = Ok (sdp_wire_header (mask_ports p)).
Proof.
  intros p Hp. unfold sdp_header, struct_pack. rewrite parse_sdp_header, header_values_resolved.
  cbn [app]. rewrite !pack_pad. change 8%nat with (length (hvals p)).
  rewrite pack_bytes_ok by (apply hvals_bytes; exact Hp). reflexivity.
Qed.

Lemma sdp_header_bad : forall p, ~ sdp_packable p -> sdp_header p = OtherError.
Proof.
  intros p Hp. unfold sdp_header, struct_pack. rewrite parse_sdp_header, header_values_resolved.
  cbn [app]. rewrite !pack_pad. change 8%nat with (length (hvals p)).
  rewrite pack_bytes_bad; [reflexivity|]. intros H. apply Hp. apply hvals_bytes. exact H.
Qed.

Lemma mask_ports_id : forall p, sdp_in_width p -> mask_ports p = p.
Proof.
  intros p (_ & Hdp & Hdc & Hsp & Hsc & _). destruct p. unfold mask_ports. cbn in *.
  rewrite !Z.mod_small by lia. reflexivity.
Qed.

Lemma in_width_packable : forall p, sdp_in_width p -> sdp_packable p.
Proof. intros p (Ht & _ & _ & _ & _ & Hx & Hy & Hsx & Hsy). unfold sdp_packable. tauto. Qed.

(* ------------------------------------------------------------------ SDP *)
Lemma sdp_layout_masked : forall p, sdp_packable p -> sdp_bytes p = Ok (sdp_wire (mask_ports p)).
Proof. intros p Hp. unfold sdp_bytes. rewrite sdp_header_ok by exact Hp. reflexivity. Qed.

Lemma sdp_layout : forall p, sdp_in_width p -> sdp_bytes p = Ok (sdp_wire p).
Proof.
  intros p Hp. rewrite sdp_layout_masked by (apply in_width_packable; exact Hp).
  rewrite mask_ports_id by exact Hp. reflexivity.
Qed.

Lemma sdp_bytes_error : forall p, ~ sdp_packable p -> sdp_bytes p = OtherError.
Proof. intros p Hp. unfold sdp_bytes. rewrite sdp_header_bad by exact Hp. reflexivity. Qed.

Lemma sdp_bytes_outcome : forall p,
  (sdp_packable p /\ sdp_bytes p = Ok (sdp_wire (mask_ports p))) \/ (~ sdp_packable p /\ sdp_bytes p = OtherError).
Proof.
  intros p. destruct (sdp_packable_dec p) as [H | H]; [left | right]; split; try exact H.
  - apply sdp_layout_masked. exact H.
  - apply sdp_bytes_error. exact H.
Qed.

(* ------------------------------------------------------------------ SCP *)
Lemma pack_opt_ok : forall fmt a,
  parse_fmt fmt = Some [FUInt 4] -> opt_word32 a -> pack_opt fmt a = Ok (opt_le32 a).
Proof.
  intros fmt [v|] Hf Ha; [|reflexivity]. cbn [pack_opt opt_le32 opt_word32] in *.
  unfold struct_pack. rewrite Hf.
  rewrite pack_uint_ok by (change (256 ^ Z.of_nat 4) with 4294967296; exact Ha).
  cbn [pack_items bind]. rewrite app_nil_r. rewrite le_bytes_4 by exact Ha. reflexivity.
Qed.

Lemma pack_opt_bad : forall fmt a,
  parse_fmt fmt = Some [FUInt 4] -> ~ opt_word32 a -> pack_opt fmt a = OtherError.
Proof.
  intros fmt [v|] Hf Ha; [|exfalso; apply Ha; exact I]. cbn [pack_opt opt_word32] in *.
  unfold struct_pack. rewrite Hf. apply pack_uint_bad. change (256 ^ Z.of_nat 4) with 4294967296. exact Ha.
Qed.

Lemma scp_head_ok : forall c s,
  0 <= c < 65536 -> 0 <= s < 65536 -> struct_pack scp_header_fmt [c; s] = Ok (le16 c ++ le16 s).
Proof.
  intros c s Hc Hs. unfold struct_pack. rewrite parse_scp_header.
  rewrite pack_uint_ok by (change (256 ^ Z.of_nat 2) with 65536; exact Hc).
  rewrite pack_uint_ok by (change (256 ^ Z.of_nat 2) with 65536; exact Hs).
  cbn [pack_items bind]. rewrite app_nil_r, !le_bytes_2 by assumption. reflexivity.
Qed.

Lemma scp_head_bad : forall c s,
  ~ (0 <= c < 65536 /\ 0 <= s < 65536) -> struct_pack scp_header_fmt [c; s] = OtherError.
Proof.
  intros c s H. unfold struct_pack. rewrite parse_scp_header.
  assert (Hd : 0 <= c < 65536 \/ ~ 0 <= c < 65536) by lia. destruct Hd as [Hc | Hc].
  - rewrite pack_uint_ok by (change (256 ^ Z.of_nat 2) with 65536; exact Hc).
    rewrite pack_uint_bad; [reflexivity|]. change (256 ^ Z.of_nat 2) with 65536. lia.
  - apply pack_uint_bad. change (256 ^ Z.of_nat 2) with 65536. exact Hc.
Qed.

Lemma opt_word32_dec : forall a, opt_word32 a \/ ~ opt_word32 a.
Proof. intros [v|]; cbn; [unfold word32; lia | left; exact I]. Qed.

Lemma scp_packed_data_ok : forall q,
  0 <= cmd_rc q < 65536 -> 0 <= seq q < 65536 -> opt_word32 (arg1 q) -> opt_word32 (arg2 q) -> opt_word32 (arg3 q) ->
  scp_packed_data q = Ok (le16 (cmd_rc q) ++ le16 (seq q) ++ opt_le32 (arg1 q) ++ opt_le32 (arg2 q)
                          ++ opt_le32 (arg3 q) ++ data (sdp_part q)).
Proof.
  intros q Hc Hs H1 H2 H3. unfold scp_packed_data.
  rewrite scp_head_ok by assumption. cbn [bind].
  rewrite (pack_opt_ok _ _ parse_pack_arg1 H1). cbn [bind].
  rewrite (pack_opt_ok _ _ parse_pack_arg2 H2). cbn [bind].
  rewrite (pack_opt_ok _ _ parse_pack_arg3 H3). cbn [bind].
  rewrite <- !app_assoc. reflexivity.
Qed.

Lemma scp_packed_data_bad : forall q,
  ~ (0 <= cmd_rc q < 65536 /\ 0 <= seq q < 65536 /\ opt_word32 (arg1 q) /\ opt_word32 (arg2 q) /\ opt_word32 (arg3 q)) ->
  scp_packed_data q = OtherError.
Proof.
  intros q H. unfold scp_packed_data.
  assert (Hd : (0 <= cmd_rc q < 65536 /\ 0 <= seq q < 65536) \/ ~ (0 <= cmd_rc q < 65536 /\ 0 <= seq q < 65536)) by lia.
  destruct Hd as [[Hc Hs] | Hcs]; [|rewrite scp_head_bad by exact Hcs; reflexivity].
  rewrite scp_head_ok by assumption. cbn [bind].
  destruct (opt_word32_dec (arg1 q)) as [H1 | H1];
    [|rewrite (pack_opt_bad _ _ parse_pack_arg1 H1); reflexivity].
  rewrite (pack_opt_ok _ _ parse_pack_arg1 H1). cbn [bind].
  destruct (opt_word32_dec (arg2 q)) as [H2 | H2];
    [|rewrite (pack_opt_bad _ _ parse_pack_arg2 H2); reflexivity].
  rewrite (pack_opt_ok _ _ parse_pack_arg2 H2). cbn [bind].
  destruct (opt_word32_dec (arg3 q)) as [H3 | H3];
    [|rewrite (pack_opt_bad _ _ parse_pack_arg3 H3); reflexivity].
  exfalso. apply H. repeat split; tauto.
Qed.

Lemma scp_packable_dec : forall q, scp_packable q \/ ~ scp_packable q.
Proof.
  intros q. unfold scp_packable.
  destruct (sdp_packable_dec (sdp_part q)); destruct (opt_word32_dec (arg1 q));
    destruct (opt_word32_dec (arg2 q)); destruct (opt_word32_dec (arg3 q));
    assert (Hd : (0 <= cmd_rc q < 65536 /\ 0 <= seq q < 65536) \/ ~ (0 <= cmd_rc q < 65536 /\ 0 <= seq q < 65536)) by lia;
    destruct Hd; tauto.
Qed.

Lemma scp_layout_masked : forall q, scp_packable q -> scp_bytes q = Ok (scp_wire (scp_mask_ports q)).
Proof.
  intros q (Hp & Hc & Hs & H1 & H2 & H3). unfold scp_bytes.
  rewrite sdp_header_ok by exact Hp. cbn [bind].
  rewrite scp_packed_data_ok by assumption. reflexivity.
Qed.

Lemma scp_mask_ports_id : forall q, scp_in_width q -> scp_mask_ports q = q.
Proof.
  intros q (Hp & _). destruct q as [p c s a1 a2 a3]. unfold scp_mask_ports. cbn in *.
  rewrite mask_ports_id by exact Hp. reflexivity.
Qed.

Lemma scp_in_width_packable : forall q, scp_in_width q -> scp_packable q.
Proof.
  intros q (Hp & Hc & Hs & H1 & H2 & H3). unfold scp_packable.
  pose proof (in_width_packable _ Hp). tauto.
Qed.

Lemma scp_layout : forall q, scp_in_width q -> scp_bytes q = Ok (scp_wire q).
Proof.
  intros q Hq. rewrite scp_layout_masked by (apply scp_in_width_packable; exact Hq).
  rewrite scp_mask_ports_id by exact Hq. reflexivity.
Qed.

Lemma scp_bytes_error : forall q, ~ scp_packable q -> scp_bytes q = OtherError.
Proof.
  intros q H. unfold scp_bytes.
  destruct (sdp_packable_dec (sdp_part q)) as [Hp | Hp]; [|rewrite sdp_header_bad by exact Hp; reflexivity].
  rewrite sdp_header_ok by exact Hp. cbn [bind].
  rewrite scp_packed_data_bad; [reflexivity|]. intros H'. apply H. unfold scp_packable. tauto.
Qed.

Lemma scp_bytes_outcome : forall q,
  (scp_packable q /\ scp_bytes q = Ok (scp_wire (scp_mask_ports q))) \/ (~ scp_packable q /\ scp_bytes q = OtherError).
Proof.
  intros q. destruct (scp_packable_dec q) as [H | H]; [left | right]; split; try exact H.
  - apply scp_layout_masked. exact H.
  - apply scp_bytes_error. exact H.
Qed.


(* ================================================================== decoding *)
(* ------------------------------------------------------------------ the SDP header *)
Lemma sdp_of_bytes_cons : forall b0 b1 b2 b3 b4 b5 b6 b7 b8 b9 rest,
  sdp_of_bytes (b0 :: b1 :: b2 :: b3 :: b4 :: b5 :: b6 :: b7 :: b8 :: b9 :: rest)
  = Ok {| reply_expected := (b2 =? 135); tag := b3;
          dest_port := b4 / 32; dest_cpu := b4 mod 32; src_port := b5 / 32; src_cpu := b5 mod 32;
          dest_x := b7; dest_y := b6; src_x := b9; src_y := b8; data := rest |}.
Proof.
  intros. unfold sdp_of_bytes.
  rewrite (unpack_from_ok _ _ _ 0 parse_sdp_unpack)
    by (cbn [calcsize fold_right item_size app repeat length]; lia).
  change (Z.to_nat 0) with 0%nat. change (Z.to_nat sdp_data_offset) with 10%nat.
  cbn [app repeat unpack_items skipn firstn le_value bind].
  rewrite !Z.mul_0_r, !Z.add_0_r.
  unfold sdp_decode_fields. rewrite !shiftr5, !land31. unfold FLAG_REPLY. reflexivity.
Qed.

Lemma sdp_of_bytes_short : forall bs, (length bs < 10)%nat -> sdp_of_bytes bs = OtherError.
Proof.
  intros bs H. unfold sdp_of_bytes.
  rewrite (unpack_from_short _ _ _ 0 parse_sdp_unpack)
    by (cbn [calcsize fold_right item_size app repeat]; lia).
  reflexivity.
Qed.

Lemma sdp_decode_spec : forall bs, (10 <= length bs)%nat -> exists p, sdp_of_bytes bs = Ok p /\ sdp_decoded bs p.
Proof.
  intros bs H.
  do 10 (destruct bs as [|? bs]; [cbn [length] in H; lia|]).
  eexists. split; [apply sdp_of_bytes_cons|].
  unfold sdp_decoded. cbn. repeat split; reflexivity.
Qed.

(* ------------------------------------------------------------------ the arguments *)
Definition taken (n : Z) (d : list Z) : nat :=
  Z.to_nat (Z.max 0 (Z.min (Z.min n (Z.of_nat (length d) / 4)) 3)).
Definition argi (d : list Z) (k i : nat) : option Z :=
  if Nat.ltb i k then Some (le_value (firstn 4 (skipn (4 * i) d))) else None.

Ltac geb_arith :=
  repeat match goal with
         | H : andb _ _ = true |- _ => apply andb_prop in H; destruct H
         | H : andb _ _ = false |- _ => apply andb_false_iff in H
         | H : (_ >=? _) = true |- _ => apply Z.geb_le in H
         | H : (_ >=? _) = false |- _ => rewrite Z.geb_leb in H; apply Z.leb_gt in H
         | H : _ \/ _ |- _ => destruct H
         end.

(* THIS is the lemma that reads the generated guards and steps of the unrolled loop *)
Lemma scp_unpack_args_spec : forall n d,
  scp_unpack_args n d
  = Ok (argi d (taken n d) 0, argi d (taken n d) 1, argi d (taken n d) 2, 4 * Z.of_nat (taken n d)).
Proof.
  intros n d. unfold scp_unpack_args, scp_take_arg1, scp_take_arg2, scp_take_arg3,
                     scp_arg1_step, scp_arg2_step, scp_arg3_step.
  remember (Z.of_nat (length d)) as L eqn:HL.
  destruct ((n >=? 1) && (L >=? 4)) eqn:E1.
  - geb_arith.
    rewrite (unpack_one_word _ d 0 parse_unpack_arg1) by lia. cbn [bind].
    destruct ((n >=? 2) && (L >=? 8)) eqn:E2.
    + geb_arith.
      rewrite (unpack_one_word _ d (0 + 4) parse_unpack_arg2) by lia. cbn [bind].
      destruct ((n >=? 3) && (L >=? 12)) eqn:E3.
      * geb_arith.
        rewrite (unpack_one_word _ d (0 + 4 + 4) parse_unpack_arg3) by lia. cbn [bind].
        replace (taken n d) with 3%nat by (unfold taken; lia). reflexivity.
      * replace (taken n d) with 2%nat by (unfold taken; geb_arith; lia). reflexivity.
    + replace (taken n d) with 1%nat by (unfold taken; geb_arith; lia). reflexivity.
  - replace (taken n d) with 0%nat by (unfold taken; geb_arith; lia). reflexivity.
Qed.

(* ------------------------------------------------------------------ SCP *)
Lemma scp_of_bytes_cons : forall b0 b1 b2 b3 b4 b5 b6 b7 b8 b9 b10 b11 b12 b13 rest n,
  scp_of_bytes (b0 :: b1 :: b2 :: b3 :: b4 :: b5 :: b6 :: b7 :: b8 :: b9 :: b10 :: b11 :: b12 :: b13 :: rest) n
  = Ok {| sdp_part :=
            {| reply_expected := (b2 =? 135); tag := b3;
               dest_port := b4 / 32; dest_cpu := b4 mod 32; src_port := b5 / 32; src_cpu := b5 mod 32;
               dest_x := b7; dest_y := b6; src_x := b9; src_y := b8;
               data := skipn (4 * taken n rest) rest |};
          cmd_rc := b10 + 256 * b11; seq := b12 + 256 * b13;
          arg1 := argi rest (taken n rest) 0; arg2 := argi rest (taken n rest) 1;
          arg3 := argi rest (taken n rest) 2 |}.
Proof.
  intros. unfold scp_of_bytes. rewrite sdp_of_bytes_cons. cbn [bind data].
  rewrite (unpack_from_ok _ _ _ 0 parse_scp_unpack_header)
    by (cbn [calcsize fold_right item_size length]; lia).
  change (Z.to_nat 0) with 0%nat. change (Z.to_nat scp_args_offset) with 4%nat.
  cbn [unpack_items skipn firstn le_value bind].
  rewrite !Z.mul_0_r, !Z.add_0_r.
  rewrite scp_unpack_args_spec. cbn [bind].
  replace (Z.to_nat (4 * Z.of_nat (taken n rest))) with (4 * taken n rest)%nat by lia.
  reflexivity.
Qed.

Lemma scp_of_bytes_short : forall bs n, (length bs < 14)%nat -> scp_of_bytes bs n = OtherError.
Proof.
  intros bs n H. unfold scp_of_bytes.
  assert (Hd : (length bs < 10)%nat \/ (10 <= length bs)%nat) by lia. destruct Hd as [Hs | Hl].
  - rewrite sdp_of_bytes_short by exact Hs. reflexivity.
  - do 10 (destruct bs as [|? bs]; [cbn [length] in Hl; lia|]).
    rewrite sdp_of_bytes_cons. cbn [bind data]. cbn [length] in H.
    rewrite (unpack_from_short _ _ _ 0 parse_scp_unpack_header)
      by (cbn [calcsize fold_right item_size]; lia).
    reflexivity.
Qed.

Lemma args_taken_cons : forall n (bs : list Z) rest,
  length bs = (14 + length rest)%nat -> args_taken n (length bs) = taken n rest.
Proof.
  intros n bs rest H. unfold args_taken, taken. rewrite H.
  replace (Z.of_nat (14 + length rest) - 14) with (Z.of_nat (length rest)) by lia. reflexivity.
Qed.

Lemma arg_expected_cons : forall b0 b1 b2 b3 b4 b5 b6 b7 b8 b9 b10 b11 b12 b13 rest k i,
  arg_expected (b0 :: b1 :: b2 :: b3 :: b4 :: b5 :: b6 :: b7 :: b8 :: b9 :: b10 :: b11 :: b12 :: b13 :: rest) k i
  = argi rest k i.
Proof.
  intros. unfold arg_expected, argi, word_at.
  reflexivity.
Qed.

Lemma scp_decode_spec : forall bs n,
  (14 <= length bs)%nat -> exists q, scp_of_bytes bs n = Ok q /\ scp_decoded bs n q.
Proof.
  intros bs n H.
  do 14 (destruct bs as [|? bs]; [cbn [length] in H; lia|]).
  eexists. split; [apply scp_of_bytes_cons|].
  unfold scp_decoded.
  rewrite (args_taken_cons n _ bs) by (cbn [length]; lia).
  rewrite !arg_expected_cons.
  cbn [sdp_part reply_expected tag dest_port dest_cpu src_port src_cpu dest_x dest_y src_x src_y data
       cmd_rc seq arg1 arg2 arg3 nth].
  unfold word_at. cbn [Nat.add]. cbn [skipn firstn le_value]. rewrite !Z.mul_0_r, !Z.add_0_r.
  repeat split; reflexivity.
Qed.

(* ================================================================== round trip *)
Lemma flag_byte_back : forall r, (flag_byte r =? 135) = r.
Proof. intros [|]; reflexivity. Qed.

Lemma sdp_decode_wire : forall p, sdp_in_width p -> sdp_of_bytes (sdp_wire p) = Ok p.
Proof.
  intros [r t dp dc sp sc dx dy sx sy d] Hw.
  unfold sdp_in_width, byte in Hw.
  cbn [reply_expected tag dest_port dest_cpu src_port src_cpu dest_x dest_y src_x src_y data] in Hw.
  destruct Hw as (Ht & Hdp & Hdc & Hsp & Hsc & Hdx & Hdy & Hsx & Hsy).
  unfold sdp_wire, sdp_wire_header.
  cbn [app reply_expected tag dest_port dest_cpu src_port src_cpu dest_x dest_y src_x src_y data].
  rewrite sdp_of_bytes_cons. rewrite flag_byte_back.
  repeat f_equal; lia.
Qed.

Lemma sdp_decode_encode : forall p, sdp_in_width p ->
  exists bs, sdp_bytes p = Ok bs /\ sdp_of_bytes bs = Ok p.
Proof.
  intros p Hw. exists (sdp_wire p). split; [apply sdp_layout | apply sdp_decode_wire]; exact Hw.
Qed.

Lemma scp_decode_wire : forall q, scp_in_width q -> args_prefix q ->
  scp_of_bytes (scp_wire q) (n_present q) = Ok q.
Proof.
  intros [[r t dp dc sp sc dx dy sx sy d] c s a1 a2 a3] Hw Hp.
  unfold scp_in_width, sdp_in_width, byte, args_prefix in *.
  cbn [sdp_part cmd_rc seq arg1 arg2 arg3
       reply_expected tag dest_port dest_cpu src_port src_cpu dest_x dest_y src_x src_y data] in *.
  destruct Hw as ((Ht & Hdp & Hdc & Hsp & Hsc & Hdx & Hdy & Hsx & Hsy) & Hc & Hs & H1 & H2 & H3).
  destruct Hp as [P1 P2].
  destruct a1 as [v1|], a2 as [v2|], a3 as [v3|];
    try (specialize (P1 eq_refl); discriminate P1); try (specialize (P2 eq_refl); discriminate P2);
    unfold opt_word32, word32 in *;
    unfold scp_wire, sdp_wire_header, le16, opt_le32, le32, n_present, present;
    cbn [app sdp_part cmd_rc seq arg1 arg2 arg3
         reply_expected tag dest_port dest_cpu src_port src_cpu dest_x dest_y src_x src_y data];
    rewrite scp_of_bytes_cons; rewrite flag_byte_back.
  - replace (taken (1 + 1 + 1) _) with 3%nat by (unfold taken; cbn [length]; lia).
    cbn [argi Nat.ltb Nat.leb Nat.mul Nat.add skipn firstn le_value]. repeat f_equal; lia.
  - replace (taken (1 + 1 + 0) _) with 2%nat by (unfold taken; cbn [length]; lia).
    cbn [argi Nat.ltb Nat.leb Nat.mul Nat.add skipn firstn le_value]. repeat f_equal; lia.
  - replace (taken (1 + 0 + 0) _) with 1%nat by (unfold taken; cbn [length]; lia).
    cbn [argi Nat.ltb Nat.leb Nat.mul Nat.add skipn firstn le_value]. repeat f_equal; lia.
  - replace (taken (0 + 0 + 0) _) with 0%nat by (unfold taken; cbn [length]; lia).
    cbn [argi Nat.ltb Nat.leb Nat.mul Nat.add skipn firstn le_value]. repeat f_equal; lia.
Qed.

Lemma scp_decode_encode : forall q, scp_in_width q -> args_prefix q ->
  exists bs, scp_bytes q = Ok bs /\ scp_of_bytes bs (n_present q) = Ok q.
Proof.
  intros q Hw Hp. exists (scp_wire q). split; [apply scp_layout | apply scp_decode_wire]; assumption.
Qed.

(* a packet that decoding returns always has its arguments as a prefix: the guard of the round trip is
   necessary, no packet with arg1 absent and arg2 present is the decoding of anything *)
Lemma decoded_args_prefix : forall bs n q, scp_of_bytes bs n = Ok q -> args_prefix q.
Proof.
  intros bs n q H.
  assert (Hd : (length bs < 14)%nat \/ (14 <= length bs)%nat) by lia. destruct Hd as [Hs | Hl].
  - rewrite scp_of_bytes_short in H by exact Hs. discriminate H.
  - do 14 (destruct bs as [|? bs]; [cbn [length] in Hl; lia|]).
    rewrite scp_of_bytes_cons in H. injection H as H. subst q.
    unfold args_prefix, argi. cbn [arg1 arg2 arg3].
    destruct (taken n bs) as [|[|[|k]]]; cbn; split; intros X; try reflexivity; discriminate X.
Qed.

(* ================================================================== field isolation *)
Ltac use_same :=
  repeat match goal with
         | H : (?a = ?a \/ _) |- _ => clear H
         | H : ((_ = _ /\ _) \/ _) |- _ => destruct H as [(H & _) | H]; [discriminate H|]
         | H : (_ = _ \/ _) |- _ => destruct H as [H | H]; [discriminate H|]
         end.

Ltac positions :=
  let i := fresh "i" in
  intros i _ _;
  first [ reflexivity
        | do 27 (destruct i as [|i]; [cbn -[Z.mul Z.add Z.div Z.modulo]; try reflexivity; lia|]);
          cbn -[Z.mul Z.add Z.div Z.modulo]; reflexivity ].

Lemma scp_wire_isolation : forall f q q',
  scp_in_width q -> scp_in_width q' -> same_except f q q' -> differ_only_in f q (scp_wire q) (scp_wire q').
Proof.
  intros f [[r t dp dc sp sc dx dy sx sy d] c s a1 a2 a3] [[r' t' dp' dc' sp' sc' dx' dy' sx' sy' d'] c' s' a1' a2' a3']
         Hw Hw' Hs.
  unfold scp_in_width, sdp_in_width, byte in Hw, Hw'. unfold same_except, sdp_same_except in Hs.
  cbn [sdp_part cmd_rc seq arg1 arg2 arg3
       reply_expected tag dest_port dest_cpu src_port src_cpu dest_x dest_y src_x src_y data] in *.
  destruct Hw as ((Ht & Hdp & Hdc & Hsp & Hsc & Hdx & Hdy & Hsx & Hsy) & Hc & Hsq & H1 & H2 & H3).
  destruct Hw' as ((Ht' & Hdp' & Hdc' & Hsp' & Hsc' & Hdx' & Hdy' & Hsx' & Hsy') & Hc' & Hsq' & H1' & H2' & H3').
  destruct Hs as ((E0 & E1 & E2 & E3 & E4 & E5 & E6 & E7 & E8 & E9 & E15) & E10 & E11 & E12 & E13 & E14).
  unfold differ_only_in, scp_wire, sdp_wire_header, le16.
  cbn [sdp_part cmd_rc seq arg1 arg2 arg3
       reply_expected tag dest_port dest_cpu src_port src_cpu dest_x dest_y src_x src_y data].
  destruct f; use_same; subst.
  (* header fields, cmd_rc, seq: the tail from byte 14 on is the same term on both sides *)
  1-12: (split; [intros _; cbn [app length]; reflexivity | positions]).
  - (* arg1 *)
    destruct E12 as [(_ & N & N') | E]; [|subst; split; [reflexivity | positions]].
    destruct a1 as [v|]; [|contradiction]. destruct a1' as [v'|]; [|contradiction].
    split; [intros _; cbn [app length opt_le32 le32]; reflexivity|].
    destruct a2', a3'; positions.
  - (* arg2 *)
    destruct E13 as [(_ & N & N') | E]; [|subst; split; [reflexivity | positions]].
    destruct a2 as [v|]; [|contradiction]. destruct a2' as [v'|]; [|contradiction].
    split; [intros _; destruct a1'; cbn [app length opt_le32 le32]; reflexivity|].
    destruct a1', a3'; positions.
  - (* arg3 *)
    destruct E14 as [(_ & N & N') | E]; [|subst; split; [reflexivity | positions]].
    destruct a3 as [v|]; [|contradiction]. destruct a3' as [v'|]; [|contradiction].
    split; [intros _; destruct a1', a2'; cbn [app length opt_le32 le32]; reflexivity|].
    destruct a1', a2'; positions.
  - (* payload *)
    split; [intros X; exfalso; apply X; reflexivity|].
    destruct a1', a2', a3'; positions.
Qed.

Lemma sdp_wire_isolation : forall f p p',
  sdp_in_width p -> sdp_in_width p' -> sdp_same_except f p p' -> sdp_differ_only_in f (sdp_wire p) (sdp_wire p').
Proof.
  intros f [r t dp dc sp sc dx dy sx sy d] [r' t' dp' dc' sp' sc' dx' dy' sx' sy' d'] Hw Hw' Hs.
  unfold sdp_in_width, byte in Hw, Hw'. unfold sdp_same_except in Hs.
  cbn [reply_expected tag dest_port dest_cpu src_port src_cpu dest_x dest_y src_x src_y data] in *.
  destruct Hw as (Ht & Hdp & Hdc & Hsp & Hsc & Hdx & Hdy & Hsx & Hsy).
  destruct Hw' as (Ht' & Hdp' & Hdc' & Hsp' & Hsc' & Hdx' & Hdy' & Hsx' & Hsy').
  destruct Hs as (E0 & E1 & E2 & E3 & E4 & E5 & E6 & E7 & E8 & E9 & E15).
  unfold sdp_differ_only_in, sdp_wire, sdp_wire_header.
  cbn [reply_expected tag dest_port dest_cpu src_port src_cpu dest_x dest_y src_x src_y data].
  destruct f; use_same; subst.
  1-15: (split; [intros _; cbn [app length]; reflexivity | positions]).
  split; [intros X; exfalso; apply X; reflexivity | positions].
Qed.

(* ================================================================== statements for Props/C15.v *)
Lemma scp_field_isolation : forall f q q',
  scp_in_width q -> scp_in_width q' -> same_except f q q' ->
  exists bs bs', scp_bytes q = Ok bs /\ scp_bytes q' = Ok bs' /\ differ_only_in f q bs bs'.
Proof.
  intros f q q' Hw Hw' Hs. exists (scp_wire q), (scp_wire q').
  split; [apply scp_layout; exact Hw|]. split; [apply scp_layout; exact Hw'|].
  apply scp_wire_isolation; assumption.
Qed.

Lemma sdp_field_isolation : forall f p p',
  sdp_in_width p -> sdp_in_width p' -> sdp_same_except f p p' ->
  exists bs bs', sdp_bytes p = Ok bs /\ sdp_bytes p' = Ok bs' /\ sdp_differ_only_in f bs bs'.
Proof.
  intros f p p' Hw Hw' Hs. exists (sdp_wire p), (sdp_wire p').
  split; [apply sdp_layout; exact Hw|]. split; [apply sdp_layout; exact Hw'|].
  apply sdp_wire_isolation; assumption.
Qed.

(* the encodings are well-formed byte strings when the payload is *)
Lemma sdp_wire_header_bytes : forall p, sdp_in_width p -> bytes (sdp_wire_header p).
Proof.
  intros p (Ht & Hdp & Hdc & Hsp & Hsc & Hdx & Hdy & Hsx & Hsy). unfold sdp_wire_header, bytes.
  assert (Hf : byte (flag_byte (reply_expected p))) by (unfold byte, flag_byte; destruct (reply_expected p); lia).
  unfold byte in *. repeat (constructor; [first [assumption | lia]|]). constructor.
Qed.

Lemma le16_bytes : forall v, 0 <= v < 65536 -> bytes (le16 v).
Proof. intros v Hv. unfold le16, bytes, byte. repeat (constructor; [lia|]). constructor. Qed.

Lemma opt_le32_bytes : forall a, opt_word32 a -> bytes (opt_le32 a).
Proof.
  intros [v|] Ha; cbn [opt_le32]; [|constructor]. cbn [opt_word32] in Ha. unfold word32 in Ha.
  unfold le32, bytes, byte. repeat (constructor; [lia|]). constructor.
Qed.

Lemma sdp_wire_bytes : forall p, sdp_in_width p -> bytes (data p) -> bytes (sdp_wire p).
Proof. intros p Hw Hd. unfold sdp_wire. apply Forall_app. split; [apply sdp_wire_header_bytes; exact Hw | exact Hd]. Qed.

Lemma scp_wire_bytes : forall q, scp_in_width q -> bytes (data (sdp_part q)) -> bytes (scp_wire q).
Proof.
  intros q (Hp & Hc & Hs & H1 & H2 & H3) Hd. unfold scp_wire.
  apply Forall_app; split; [apply sdp_wire_header_bytes; exact Hp|].
  apply Forall_app; split; [apply le16_bytes; exact Hc|].
  apply Forall_app; split; [apply le16_bytes; exact Hs|].
  apply Forall_app; split; [apply opt_le32_bytes; exact H1|].
  apply Forall_app; split; [apply opt_le32_bytes; exact H2|].
  apply Forall_app; split; [apply opt_le32_bytes; exact H3 | exact Hd].
Qed.

(* the round trip cannot be asked of a packet whose present arguments are not a prefix *)
Definition nonprefix_witness : scp :=
  {| sdp_part := {| reply_expected := false; tag := 255; dest_port := 1; dest_cpu := 2; src_port := 7;
                    src_cpu := 31; dest_x := 3; dest_y := 4; src_x := 0; src_y := 0; data := [] |};
     cmd_rc := 1; seq := 0; arg1 := None; arg2 := Some 5; arg3 := None |}.

Lemma roundtrip_needs_prefix :
  scp_in_width nonprefix_witness /\ ~ args_prefix nonprefix_witness
  /\ scp_bytes nonprefix_witness = Ok [0; 0; 7; 255; 34; 255; 4; 3; 0; 0; 1; 0; 0; 0; 5; 0; 0; 0]
  /\ forall bs n, scp_of_bytes bs n <> Ok nonprefix_witness.
Proof.
  split; [|split; [|split]].
  - unfold scp_in_width, sdp_in_width, byte, opt_word32, word32, nonprefix_witness. cbn. lia.
  - intros [P _]. specialize (P eq_refl). discriminate P.
  - vm_compute. reflexivity.
  - intros bs n H. apply decoded_args_prefix in H. destruct H as [P _]. specialize (P eq_refl). discriminate P.
Qed.

(* instances: hypotheses are satisfiable, and a payload that ends inside the second argument word *)
Definition ex_scp : scp :=
  {| sdp_part := {| reply_expected := true; tag := 255; dest_port := 7; dest_cpu := 17; src_port := 7;
                    src_cpu := 31; dest_x := 255; dest_y := 254; src_x := 1; src_y := 2; data := [9; 8; 7] |};
     cmd_rc := 65535; seq := 258; arg1 := Some 4294967295; arg2 := Some 66051; arg3 := None |}.

Lemma ex_scp_instance :
  scp_in_width ex_scp /\ args_prefix ex_scp /\ n_present ex_scp = 2
  /\ scp_bytes ex_scp = Ok [0; 0; 135; 255; 241; 255; 254; 255; 2; 1; 255; 255; 2; 1;
                            255; 255; 255; 255; 3; 2; 1; 0; 9; 8; 7]
  /\ bind (scp_bytes ex_scp) (fun bs => scp_of_bytes bs 2) = Ok ex_scp.
Proof.
  split; [|split; [|split; [|split]]].
  - unfold scp_in_width, sdp_in_width, byte, opt_word32, word32, ex_scp. cbn. lia.
  - split; intros X; discriminate X.
  - reflexivity.
  - vm_compute. reflexivity.
  - vm_compute. reflexivity.
Qed.

(* 14 header bytes and 6 more: with n_args = 3 one argument is taken, two bytes remain as payload *)
Lemma ex_decode_inside_word :
  exists q, scp_of_bytes [0; 0; 7; 1; 2; 3; 4; 5; 6; 7; 8; 9; 10; 11; 12; 13; 14; 15; 16; 17] 3 = Ok q
            /\ arg1 q = Some 252579084 /\ arg2 q = None /\ arg3 q = None /\ data (sdp_part q) = [16; 17].
Proof. eexists. split; [vm_compute; reflexivity|]. cbn. repeat split; reflexivity. Qed.

Lemma ex_same_except :
  same_except FDestCpu ex_scp
    {| sdp_part := {| reply_expected := true; tag := 255; dest_port := 7; dest_cpu := 0; src_port := 7;
                      src_cpu := 31; dest_x := 255; dest_y := 254; src_x := 1; src_y := 2; data := [9; 8; 7] |};
       cmd_rc := 65535; seq := 258; arg1 := Some 4294967295; arg2 := Some 66051; arg3 := None |}.
Proof. unfold same_except, sdp_same_except, ex_scp. cbn. repeat split; auto. Qed.

(* the port/core byte as it was computed before the repair (no int()): with the port a numpy.int8, the shift is
   done in int8 and a port of 4..7 gives a negative "byte", which struct.pack refuses *)
Lemma port_byte_int8_orig :
  exists port cpu, 0 <= port < 8 /\ 0 <= cpu < 32
                   /\ ~ byte (Z.lor (wrap_int8 (Z.shiftl (Z.land port 7) 5)) (Z.land cpu 31)).
Proof. exists 4, 2. unfold byte. vm_compute. intuition discriminate. Qed.

(* ================================================================== re-encoding a decoded packet *)
Ltac split_bytes :=
  repeat match goal with
         | H : bytes (_ :: _) |- _ => unfold bytes in H
         | H : Forall byte (_ :: _) |- _ => apply Forall_cons_iff in H; destruct H
         end.

Lemma le32_of_bytes : forall a b c d, byte a -> byte b -> byte c -> byte d ->
  le32 (a + 256 * (b + 256 * (c + 256 * (d + 256 * 0)))) = [a; b; c; d].
Proof. intros a b c d Ha Hb Hc Hd. unfold byte in *. unfold le32. repeat f_equal; lia. Qed.

Lemma word32_of_bytes : forall a b c d, byte a -> byte b -> byte c -> byte d ->
  word32 (a + 256 * (b + 256 * (c + 256 * (d + 256 * 0)))).
Proof. intros a b c d Ha Hb Hc Hd. unfold byte, word32 in *. lia. Qed.

Lemma taken_bounds : forall n d, (taken n d <= 3)%nat /\ (4 * taken n d <= length d)%nat.
Proof. intros n d. unfold taken. lia. Qed.

Local Opaque Z.mul Z.add Z.div Z.modulo.

(* a well-formed datagram with zero padding and one of the two documented flag bytes: whatever n_args it is
   decoded with, the decoded packet encodes back to exactly the datagram *)
Lemma scp_reencode : forall bs n q,
  bytes bs -> nth 0 bs 0 = 0 -> nth 1 bs 0 = 0 -> (nth 2 bs 0 = 135 \/ nth 2 bs 0 = 7) ->
  scp_of_bytes bs n = Ok q -> scp_bytes q = Ok bs.
Proof.
  intros bs n q Hb H0 H1 H2 Hd.
  assert (Hl : (length bs < 14)%nat \/ (14 <= length bs)%nat) by lia. destruct Hl as [Hs | Hl].
  { rewrite scp_of_bytes_short in Hd by exact Hs. discriminate Hd. }
  do 14 (destruct bs as [|? bs]; [cbn [length] in Hl; lia|]).
  rewrite scp_of_bytes_cons in Hd. injection Hd as Hd. subst q.
  cbn [nth] in H0, H1, H2.
  pose proof (taken_bounds n bs) as [K3 KL].
  destruct (taken n bs) as [|[|[|[|k]]]]; [| | | |lia];
    cbn [Nat.mul Nat.add length] in KL;
    [ | do 4 (destruct bs as [|? bs]; [cbn [length] in KL; lia|])
      | do 8 (destruct bs as [|? bs]; [cbn [length] in KL; lia|])
      | do 12 (destruct bs as [|? bs]; [cbn [length] in KL; lia|]) ];
    split_bytes;
    cbn [argi Nat.ltb Nat.leb Nat.mul Nat.add skipn firstn le_value];
    (rewrite scp_layout;
     [ unfold scp_wire, sdp_wire_header, le16, opt_le32;
       cbn [sdp_part cmd_rc seq arg1 arg2 arg3 app
            reply_expected tag dest_port dest_cpu src_port src_cpu dest_x dest_y src_x src_y data];
       rewrite ?le32_of_bytes by assumption;
       cbn [app];
       assert (F : flag_byte (z1 =? 135) = z1) by (destruct H2 as [E | E]; rewrite E; reflexivity);
       rewrite F; unfold byte in *; repeat f_equal; lia
     | unfold scp_in_width, sdp_in_width, opt_word32;
       cbn [sdp_part cmd_rc seq arg1 arg2 arg3
            reply_expected tag dest_port dest_cpu src_port src_cpu dest_x dest_y src_x src_y data];
       repeat split; try (apply word32_of_bytes; assumption); try exact I; unfold byte in *; lia ]).
Qed.

Lemma sdp_reencode : forall bs p,
  bytes bs -> nth 0 bs 0 = 0 -> nth 1 bs 0 = 0 -> (nth 2 bs 0 = 135 \/ nth 2 bs 0 = 7) ->
  sdp_of_bytes bs = Ok p -> sdp_bytes p = Ok bs.
Proof.
  intros bs p Hb H0 H1 H2 Hd.
  assert (Hl : (length bs < 10)%nat \/ (10 <= length bs)%nat) by lia. destruct Hl as [Hs | Hl].
  { rewrite sdp_of_bytes_short in Hd by exact Hs. discriminate Hd. }
  do 10 (destruct bs as [|? bs]; [cbn [length] in Hl; lia|]).
  rewrite sdp_of_bytes_cons in Hd. injection Hd as Hd. subst p.
  cbn [nth] in H0, H1, H2. split_bytes.
  rewrite sdp_layout.
  - unfold sdp_wire, sdp_wire_header.
    cbn [app reply_expected tag dest_port dest_cpu src_port src_cpu dest_x dest_y src_x src_y data].
    assert (F : flag_byte (z1 =? 135) = z1) by (destruct H2 as [E | E]; rewrite E; reflexivity).
    rewrite F. unfold byte in *. repeat f_equal; lia.
  - unfold sdp_in_width.
    cbn [reply_expected tag dest_port dest_cpu src_port src_cpu dest_x dest_y src_x src_y data].
    unfold byte in *. repeat split; lia.
Qed.

Local Transparent Z.mul Z.add Z.div Z.modulo.

(* ================================================================== why the SAME argument count matters *)
(* a packet encoded with k < 3 arguments and at least 4(3-k) payload bytes, decoded with n_args = 3: three
   arguments come back, the missing ones taken from the payload, which is shortened by those words *)
Lemma scp_decode_more_args : forall q,
  scp_in_width q -> args_prefix q -> arg3 q = None ->
  (4 * (3 - Z.to_nat (n_present q)) <= length (data (sdp_part q)))%nat ->
  exists q', scp_of_bytes (scp_wire q) 3 = Ok q'
             /\ arg1 q' <> None /\ arg2 q' <> None /\ arg3 q' <> None
             /\ data (sdp_part q') = skipn (4 * (3 - Z.to_nat (n_present q))) (data (sdp_part q))
             /\ (arg1 q <> None -> arg1 q' = arg1 q) /\ (arg2 q <> None -> arg2 q' = arg2 q).
Proof.
  intros [[r t dp dc sp sc dx dy sx sy d] c s a1 a2 a3] Hw Hp H3n Hl.
  unfold scp_in_width, sdp_in_width, byte, args_prefix in *.
  cbn [sdp_part cmd_rc seq arg1 arg2 arg3
       reply_expected tag dest_port dest_cpu src_port src_cpu dest_x dest_y src_x src_y data] in *.
  destruct Hw as (_ & _ & _ & H1 & H2 & _). destruct Hp as [P1 P2]. subst a3.
  destruct a1 as [v1|], a2 as [v2|];
    try (specialize (P1 eq_refl); discriminate P1);
    unfold opt_word32, word32 in *;
    unfold n_present, present in Hl; cbn [arg1 arg2 arg3] in Hl;
    unfold scp_wire, sdp_wire_header, le16, opt_le32, le32, n_present, present;
    cbn [app sdp_part cmd_rc seq arg1 arg2 arg3
         reply_expected tag dest_port dest_cpu src_port src_cpu dest_x dest_y src_x src_y data];
    rewrite scp_of_bytes_cons; eexists; (split; [reflexivity|]).
  - change (Z.to_nat (1 + 1 + 0)) with 2%nat in *. cbn [Nat.sub Nat.mul Nat.add] in Hl.
    replace (taken 3 _) with 3%nat by (unfold taken; cbn [length]; lia).
    cbn [arg1 arg2 arg3 sdp_part data argi Nat.ltb Nat.leb Nat.mul Nat.add Nat.sub skipn firstn le_value].
    repeat split; try discriminate; intros _; f_equal; lia.
  - change (Z.to_nat (1 + 0 + 0)) with 1%nat in *. cbn [Nat.sub Nat.mul Nat.add] in Hl.
    replace (taken 3 _) with 3%nat by (unfold taken; cbn [length]; lia).
    cbn [arg1 arg2 arg3 sdp_part data argi Nat.ltb Nat.leb Nat.mul Nat.add Nat.sub skipn firstn le_value].
    repeat split; try discriminate; try (intros X; exfalso; apply X; reflexivity); intros _; f_equal; lia.
  - change (Z.to_nat (0 + 0 + 0)) with 0%nat in *. cbn [Nat.sub Nat.mul Nat.add] in Hl.
    replace (taken 3 _) with 3%nat by (unfold taken; lia).
    cbn [arg1 arg2 arg3 sdp_part data argi Nat.ltb Nat.leb Nat.mul Nat.add Nat.sub skipn firstn le_value].
    repeat split; try discriminate; intros X; exfalso; apply X; reflexivity.
Qed.

Lemma ex_decode_n_args_0 :
  exists q, scp_of_bytes [0; 0; 135; 1; 2; 3; 4; 5; 6; 7; 8; 9; 10; 11;
                          21; 22; 23; 24; 25; 26; 27; 28; 29; 30; 31; 32] 0 = Ok q
            /\ arg1 q = None /\ arg2 q = None /\ arg3 q = None
            /\ data (sdp_part q) = [21; 22; 23; 24; 25; 26; 27; 28; 29; 30; 31; 32].
Proof. eexists. split; [vm_compute; reflexivity|]. cbn. repeat split; reflexivity. Qed.

Lemma ex_decode_negative_n_args :
  exists q, scp_of_bytes [0; 0; 7; 1; 2; 3; 4; 5; 6; 7; 8; 9; 10; 11; 21; 22; 23; 24; 25] (-2) = Ok q
            /\ arg1 q = None /\ arg2 q = None /\ arg3 q = None /\ data (sdp_part q) = [21; 22; 23; 24; 25]
            /\ args_taken (-2) 19 = 0%nat.
Proof. eexists. split; [vm_compute; reflexivity|]. cbn. repeat split; reflexivity. Qed.
