"""C16, tie T: re-extract the functions of rig/type_casts.py (ast only; nothing is imported or run) into the
little syntax of coq/Model/FixFloatSyntax.v.  Fail closed: any statement or expression outside the subset
listed below is Unsupported (exit 2, a broken obligation), never skipped.

Per function the output is a set-up block (the constructor / the outer function that builds the closure)
and a call block (the inner function / __call__), the parameter names, and for the numpy class the check
that the `dtypes` table is the expected one.  Statements: assignment to a name / self.attr / a pair of
names, if/else, return, raise ValueError(...), assert, a bare `validate_fp_params(...)` call, `with np.errstate(invalid="ignore"):` (spliced),
docstrings and `warnings.warn("...", DeprecationWarning)` (dropped).  Expressions: names, self.attr, int
literals, 2.0 ** e, 2 ** e, * + - / << &, unary -, not, and/or, comparisons < <= > >= (chains expanded),
`x not in [ints]`, a if c else b, pairs, self.dtypes[(a, b)], and the calls int, float, min(a, b),
max((a, b)), np.clip(a, b, c), np.where(a, b, c), np.array(v, copy=True, dtype=d), self.dtype(e),
validate_fp_params(a, b, c)."""
import ast
import os
import sys

REPO = os.environ.get("PYTHONPATH", "/repo").split(os.pathsep)[0]


class Unsupported(Exception):
    pass


def need(cond, what):
    if not cond:
        raise Unsupported(what)


def d(n):
    return ast.dump(n, annotate_fields=False)


def s(x):
    return '"%s"' % x


def z(n):
    return "(%d)" % n


BIN = {ast.Mult: "OMul", ast.Add: "OAdd", ast.Sub: "OSub", ast.Div: "ODiv", ast.LShift: "OLShift", ast.BitAnd: "OBitAnd"}
CMP = {ast.Lt: "CLt", ast.LtE: "CLe", ast.Gt: "CGt", ast.GtE: "CGe"}


def is_self_attr(n):
    return isinstance(n, ast.Attribute) and isinstance(n.value, ast.Name) and n.value.id == "self"


def is_np(n, name):
    return isinstance(n, ast.Attribute) and isinstance(n.value, ast.Name) and n.value.id == "np" and n.attr == name


def expr(n):
    if isinstance(n, ast.Name):
        return "(EVar %s)" % s(n.id)
    if is_self_attr(n):
        return "(EVar %s)" % s("self." + n.attr)
    if isinstance(n, ast.Constant) and type(n.value) is int:
        return "(EInt %s)" % z(n.value)
    if isinstance(n, ast.BinOp) and isinstance(n.op, ast.Pow):
        base = n.left
        need(isinstance(base, ast.Constant), "power with a non-literal base: " + d(n))
        if type(base.value) is float:
            need(base.value == 2.0, "float power with a base other than 2.0: " + d(n))
            return "(EPow2F %s)" % expr(n.right)
        need(type(base.value) is int and base.value == 2, "integer power with a base other than 2: " + d(n))
        return "(EPow2I %s)" % expr(n.right)
    if isinstance(n, ast.BinOp) and type(n.op) in BIN:
        return "(EBin %s %s %s)" % (BIN[type(n.op)], expr(n.left), expr(n.right))
    if isinstance(n, ast.UnaryOp) and isinstance(n.op, ast.USub):
        return "(ENeg %s)" % expr(n.operand)
    if isinstance(n, ast.UnaryOp) and isinstance(n.op, ast.Not):
        return "(ENot %s)" % expr(n.operand)
    if isinstance(n, ast.BoolOp):
        op = "EAnd" if isinstance(n.op, ast.And) else "EOr"
        out = expr(n.values[-1])
        for v in reversed(n.values[:-1]):
            out = "(%s %s %s)" % (op, expr(v), out)
        return out
    if isinstance(n, ast.Compare):
        if len(n.ops) == 1 and isinstance(n.ops[0], ast.NotIn):
            lst = n.comparators[0]
            need(isinstance(lst, ast.List) and all(isinstance(e, ast.Constant) and type(e.value) is int for e in lst.elts),
                 "`not in` with something other than a list of integer literals: " + d(n))
            return "(ENotIn %s [%s])" % (expr(n.left), "; ".join(z(e.value) for e in lst.elts))
        need(all(type(o) in CMP for o in n.ops), "comparison operator outside < <= > >=: " + d(n))
        terms = [n.left] + list(n.comparators)
        parts = ["(ECmp %s %s %s)" % (CMP[type(o)], expr(a), expr(b)) for o, a, b in zip(n.ops, terms, terms[1:])]
        out = parts[-1]
        for p in reversed(parts[:-1]):
            out = "(EAnd %s %s)" % (p, out)
        return out
    if isinstance(n, ast.IfExp):
        return "(EIfExp %s %s %s)" % (expr(n.test), expr(n.body), expr(n.orelse))
    if isinstance(n, ast.Tuple) and len(n.elts) == 2:
        return "(ETup %s %s)" % (expr(n.elts[0]), expr(n.elts[1]))
    if isinstance(n, ast.Subscript) and is_self_attr(n.value) and n.value.attr == "dtypes":
        k = n.slice
        need(isinstance(k, ast.Tuple) and len(k.elts) == 2, "self.dtypes[...] with another key shape: " + d(n))
        return "(EDtypes %s %s)" % (expr(k.elts[0]), expr(k.elts[1]))
    if isinstance(n, ast.Call):
        f, a, kw = n.func, n.args, n.keywords
        if isinstance(f, ast.Name) and f.id in ("int", "float") and len(a) == 1 and not kw:
            return "(ECall1 %s %s)" % (s(f.id), expr(a[0]))
        if isinstance(f, ast.Name) and f.id == "min" and len(a) == 2 and not kw:
            return "(ECall2 %s %s %s)" % (s("min"), expr(a[0]), expr(a[1]))
        if isinstance(f, ast.Name) and f.id == "max" and len(a) == 1 and not kw and isinstance(a[0], ast.Tuple) \
                and len(a[0].elts) == 2:
            return "(ECall2 %s %s %s)" % (s("max"), expr(a[0].elts[0]), expr(a[0].elts[1]))
        if isinstance(f, ast.Name) and f.id == "validate_fp_params" and len(a) == 3 and not kw:
            return "(ECall3 %s %s %s %s)" % (s("validate_fp_params"), expr(a[0]), expr(a[1]), expr(a[2]))
        if (is_np(f, "clip") or is_np(f, "where")) and len(a) == 3 and not kw:
            return "(ECall3 %s %s %s %s)" % (s("np." + f.attr), expr(a[0]), expr(a[1]), expr(a[2]))
        if is_np(f, "array"):
            need(len(a) == 1 and [k.arg for k in kw] == ["copy", "dtype"] and d(kw[0].value) == d(ast.Constant(True)),
                 "np.array(...) is not np.array(v, copy=True, dtype=d): " + d(n))
            return "(ECall2 %s %s %s)" % (s("np.array"), expr(a[0]), expr(kw[1].value))
        if is_self_attr(f) and f.attr == "dtype" and len(a) == 1 and not kw:
            return "(ECall2 %s (EVar %s) %s)" % (s("dtype"), s("self.dtype"), expr(a[0]))
    raise Unsupported("expression outside the subset: " + d(n))


def is_docstring(st):
    return isinstance(st, ast.Expr) and isinstance(st.value, ast.Constant) and isinstance(st.value.value, str)


def is_warn(st):
    if not (isinstance(st, ast.Expr) and isinstance(st.value, ast.Call)):
        return False
    c = st.value
    return (isinstance(c.func, ast.Attribute) and isinstance(c.func.value, ast.Name) and c.func.value.id == "warnings"
            and c.func.attr == "warn" and len(c.args) == 2 and not c.keywords
            and isinstance(c.args[0], ast.Constant) and isinstance(c.args[0].value, str)
            and isinstance(c.args[1], ast.Name) and c.args[1].id == "DeprecationWarning")


def target(t):
    if isinstance(t, ast.Name):
        return t.id
    if is_self_attr(t):
        return "self." + t.attr
    raise Unsupported("assignment target outside the subset: " + d(t))


def stmts(body, err, drop_return_of=None):
    out = []
    for st in body:
        if is_docstring(st) or is_warn(st):
            continue
        if isinstance(st, ast.Assign) and len(st.targets) == 1:
            t = st.targets[0]
            if isinstance(t, ast.Tuple):
                need(len(t.elts) == 2 and all(isinstance(e, ast.Name) for e in t.elts), "tuple target: " + d(st))
                out.append("SAssign2 %s %s %s" % (s(t.elts[0].id), s(t.elts[1].id), expr(st.value)))
            else:
                out.append("SAssign %s %s" % (s(target(t)), expr(st.value)))
        elif isinstance(st, ast.If):
            out.append("SIf %s %s %s" % (expr(st.test), block(st.body, err), block(st.orelse, err)))
        elif isinstance(st, ast.Return):
            if drop_return_of and isinstance(st.value, ast.Name) and st.value.id == drop_return_of:
                need(st is body[-1], "the closure is not returned by the last statement")
                continue
            need(st.value is not None, "bare return")
            out.append("SReturn %s" % expr(st.value))
        elif isinstance(st, ast.Raise):
            need(isinstance(st.exc, ast.Call) and isinstance(st.exc.func, ast.Name) and st.exc.func.id == "ValueError"
                 and err is not None, "raise of something other than ValueError(...): " + d(st))
            out.append("SRaise %s" % z(err))
        elif isinstance(st, ast.Assert):
            need(st.msg is None, "assert with a message")
            out.append("SAssert %s" % expr(st.test))
        elif isinstance(st, ast.With):
            need(len(st.items) == 1 and st.items[0].optional_vars is None and
                 d(st.items[0].context_expr) == d(ast.parse('np.errstate(invalid="ignore")').body[0].value),
                 'with-statement other than `with np.errstate(invalid="ignore"):`')
            out.extend(stmts(st.body, err))
        elif isinstance(st, ast.FunctionDef) and drop_return_of == st.name:
            continue
        elif isinstance(st, ast.Expr) and isinstance(st.value, ast.Call) and isinstance(st.value.func, ast.Name) \
                and st.value.func.id == "validate_fp_params":
            out.append("SExpr %s" % expr(st.value))
        else:
            raise Unsupported("statement outside the subset: " + d(st)[:200])
    return out


def block(body, err):
    return "[" + "; ".join(stmts(body, err)) + "]"


def argnames(f):
    a = f.args
    need(not (a.vararg or a.kwarg or a.kwonlyargs or a.defaults or a.posonlyargs), "%s: unexpected kind of parameter" % f.name)
    return [x.arg for x in a.args]


def emit(name, items):
    return "Definition %s : list stmt :=\n  [ %s ].\n" % (name, "\n  ; ".join(items) if items else "")


def closure(tree, name, params, inner_param, err):
    f = [n for n in tree.body if isinstance(n, ast.FunctionDef) and n.name == name]
    need(len(f) == 1, "function %s not found" % name)
    f = f[0]
    need(argnames(f) == params, "%s%r: parameters are now %r" % (name, params, argnames(f)))
    inner = [n for n in f.body if isinstance(n, ast.FunctionDef)]
    need(len(inner) == 1, "%s: exactly one inner function expected" % name)
    inner = inner[0]
    need(argnames(inner) == [inner_param], "%s.%s: parameters are now %r" % (name, inner.name, argnames(inner)))
    need(f.body.index(inner) == len(f.body) - 2, "%s: statements between the inner function and the return" % name)
    return (emit("src_%s_setup" % name, stmts(f.body, err, drop_return_of=inner.name))
            + emit("src_%s_call" % name, stmts(inner.body, None)))


def main():
    tree = ast.parse(open(os.path.join(REPO, "rig/type_casts.py")).read())
    out = ["(* GENERATED by tools/dump_c16.py from the text of rig/type_casts.py of the current /repo -- do not edit. *)",
           "From Coq Require Import ZArith List String.",
           "Require Import Rig.Model.FixFloatSyntax.",
           "Import ListNotations.\nOpen Scope string_scope.\nOpen Scope Z_scope.\n",
           "(* parameters: float_to_fp / float_to_fix / fix_to_float (signed, n_bits, n_frac) -> f(value);",
           "   fp_to_float (n_frac) -> f(value); validate_fp_params (signed, n_bits, n_frac);",
           "   NumpyFloatToFixConverter(signed, n_bits, n_frac)(values); NumpyFixToFloatConverter(n_frac)(values) *)\n"]
    out.append(closure(tree, "float_to_fp", ["signed", "n_bits", "n_frac"], "value", None))
    out.append(closure(tree, "fp_to_float", ["n_frac"], "value", None))
    out.append(closure(tree, "float_to_fix", ["signed", "n_bits", "n_frac"], "value", None))
    out.append(closure(tree, "fix_to_float", ["signed", "n_bits", "n_frac"], "value", None))
    v = [n for n in tree.body if isinstance(n, ast.FunctionDef) and n.name == "validate_fp_params"]
    need(len(v) == 1 and argnames(v[0]) == ["signed", "n_bits", "n_frac"], "validate_fp_params(signed, n_bits, n_frac) not found")
    out.append(emit("src_validate_fp_params", stmts(v[0].body, 0)))
    # ---- the two classes
    classes = {n.name: n for n in tree.body if isinstance(n, ast.ClassDef)}
    need("NumpyFloatToFixConverter" in classes and "NumpyFixToFloatConverter" in classes, "numpy converter classes not found")
    c = classes["NumpyFloatToFixConverter"]
    members = [m for m in c.body if not is_docstring(m)]
    need([type(m).__name__ for m in members] == ["Assign", "FunctionDef", "FunctionDef"] and
         [getattr(m, "name", None) for m in members[1:]] == ["__init__", "__call__"],
         "NumpyFloatToFixConverter: members are no longer (dtypes, __init__, __call__)")
    want = ast.parse("dtypes = {(False, 8): np.uint8, (True, 8): np.int8, (False, 16): np.uint16, (True, 16): np.int16, "
                     "(False, 32): np.uint32, (True, 32): np.int32, (False, 64): np.uint64, (True, 64): np.int64}").body[0]
    need(d(members[0]) == d(want), "NumpyFloatToFixConverter.dtypes is not the table (signed, bits) -> np.[u]int<bits>")
    need(argnames(members[1]) == ["self", "signed", "n_bits", "n_frac"] and argnames(members[2]) == ["self", "values"],
         "NumpyFloatToFixConverter: parameters of __init__ / __call__ changed")
    out.append(emit("src_np_float_to_fix_setup", stmts(members[1].body, 1)))
    out.append(emit("src_np_float_to_fix_call", stmts(members[2].body, None)))
    c = classes["NumpyFixToFloatConverter"]
    members = [m for m in c.body if not is_docstring(m)]
    need([getattr(m, "name", None) for m in members] == ["__init__", "__call__"] and
         argnames(members[0]) == ["self", "n_frac"] and argnames(members[1]) == ["self", "values"],
         "NumpyFixToFloatConverter: members / parameters changed")
    out.append(emit("src_np_fix_to_float_setup", stmts(members[0].body, None)))
    out.append(emit("src_np_fix_to_float_call", stmts(members[1].body, None)))
    print("\n".join(out))


if __name__ == "__main__":
    try:
        main()
    except Unsupported as e:
        sys.stderr.write("Unsupported: %s\n" % e)
        sys.exit(2)
