(* Executable model of application loading (property C09):

     rig/machine_control/machine_controller.py :
        _get_next_nn_id, _send_ffs, _send_ffcs, _send_ffd, _send_ffe, flood_fill_aplx, load_application,
        send_signal, count_cores_in_state, read_struct_field / read_vcpu_struct_field (the two reads used
        by the loader), the scp_data_length property, and SCPConnection.read (chunking of a read)

   and of the machine they talk to.  Definitions only; the proofs are in Proofs/Load*.v.

   PART 1 is the machine: the documented semantics of the SCP commands the loader uses (sver, read,
   nearest-neighbour flood-fill start / core select / end, flood-fill data, signal), written with
   division and remainder and with its own literal command numbers -- on purpose not with the shifts,
   masks and enum values of rig, which are PART 2's.  A chip that misses a flood fill ignores every
   packet of that fill; which chips miss the k-th fill is the k-th element of the schedule [m_sched].
   harness/sim_machine_c09.py is the same machine in Python; the check compares the two reply by reply
   and state by state on every run (trace validator).

   PART 2 is the controller.  Every integer expression of the code (nn id, packet fields, block count,
   loop tests and counters) is NOT written here: it is regenerated from the source text on every run
   (Generated/GenLoad.v).  What is hand-written is the control flow around them:
     * a dict is an association list in insertion order, a set of cores is a list of core numbers (the
       harness hands them over in ascending order; the order in which CPython iterates over a set of
       small integers only changes the order of the per-core state reads within one chip, which the
       harness sorts before comparing);
     * exceptions are outcomes: [Ok] / [OtherError] of Model/Base.v for everything that is not the
       loader's own error, and [LoadingError unloaded] for SpiNNakerLoadingError;
     * every transmitted packet and its reply are appended to the log of the [world]. *)
From Coq Require Import ZArith List Bool.
Require Import Rig.Generated.GenLoad Rig.Generated.GenLoadShape Rig.Model.Base Rig.Model.Regions Rig.Spec.Regions.
Import ListNotations.
Open Scope Z_scope.

(* ================================================================ bytes *)
Definition le32 (v : Z) : list Z :=
  [v mod 256; (v / 256) mod 256; (v / 65536) mod 256; (v / 16777216) mod 256].

Definition of_le32 (b : list Z) : option Z :=
  match b with
  | [b0; b1; b2; b3] => Some (b0 + 256 * b1 + 65536 * b2 + 16777216 * b3)
  | _ => None
  end.

Definition zlen {A} (l : list A) : Z := Z.of_nat (length l).

(* Python l[a:b] for 0 <= a *)
Definition slice {A} (l : list A) (a b : Z) : list A :=
  firstn (Z.to_nat (b - a)) (skipn (Z.to_nat a) l).

(* ================================================================ PART 1: the machine *)
Record core_st := mkCore {
  cs_state : Z;              (* vcpu->cpu_state *)
  cs_app : Z;                (* vcpu->app_id *)
  cs_image : list Z }.       (* the image the core was started from (bytes) *)

Record fill_st := mkFill {
  f_pid : Z;                 (* id of the fill *)
  f_n : Z;                   (* announced number of blocks *)
  f_sel : list (Z * Z);      (* (region word, core mask) pairs that selected this chip's fill so far *)
  f_next : Z;                (* number of the next block expected *)
  f_addr : Z;                (* address at which the next block must continue the image *)
  f_data : list Z;           (* image assembled so far *)
  f_err : bool }.

Record chip_st := mkChip { ch_cores : list core_st; ch_fill : option fill_st }.

Record machine := mkMachine {
  m_buffer : Z;                        (* SCP data buffer size reported by sver *)
  m_base : Z;                          (* sv->sdram_sys *)
  m_vcpu : chip -> Z;                  (* sv->vcpu_base of each chip *)
  m_chips : list (chip * chip_st);
  m_sched : list (list chip);          (* chips that miss the next fills *)
  m_deaf : list chip }.                (* chips that miss the current fill *)

Record pkt := mkPkt {
  q_x : Z; q_y : Z; q_p : Z; q_cmd : Z; q_a1 : Z; q_a2 : Z; q_a3 : Z; q_data : list Z }.

Inductive reply :=
| RArgs (a1 : Z)             (* return code ok, first argument of the reply *)
| RData (d : list Z)         (* read: the bytes *)
| RSver (buffer : Z)         (* sver: the buffer size field *)
| RError.                    (* a fatal return code *)

(* bits lo .. lo+n-1 of a word *)
Definition field (w lo n : Z) : Z := (w / 2 ^ lo) mod 2 ^ n.

(* literal numbers of the SC&MP documentation *)
Definition CMD_VER : Z := 0.
Definition CMD_READ : Z := 2.
Definition CMD_NNP : Z := 20.
Definition CMD_SIG : Z := 22.
Definition CMD_FFD : Z := 23.
Definition NN_FFS : Z := 6.
Definition NN_FFCS : Z := 7.
Definition NN_FFE : Z := 15.
Definition STATE_WAIT : Z := 5.
Definition STATE_RUN : Z := 7.
Definition SIG_START : Z := 3.
Definition SV_BASE : Z := 4110450432.        (* 0xf5007f00 *)
Definition SV_SDRAM_SYS : Z := 200.          (* 0xc8 *)
Definition SV_VCPU_BASE : Z := 204.          (* 0xcc *)
Definition VCPU_SIZE : Z := 128.
Definition VCPU_CPU_STATE : Z := 46.         (* 0x2e *)
Definition VCPU_APP_ID : Z := 47.            (* 0x2f *)
Definition N_CORES : Z := 18.

(* ---------------------------------------------------------------- memory *)
Definition mem_byte (m : machine) (vb : Z) (cs : list core_st) (a : Z) : Z :=
  if (SV_BASE + SV_SDRAM_SYS <=? a) && (a <? SV_BASE + SV_SDRAM_SYS + 4)
  then nth (Z.to_nat (a - (SV_BASE + SV_SDRAM_SYS))) (le32 (m_base m)) 0
  else if (SV_BASE + SV_VCPU_BASE <=? a) && (a <? SV_BASE + SV_VCPU_BASE + 4)
  then nth (Z.to_nat (a - (SV_BASE + SV_VCPU_BASE))) (le32 (vb)) 0
  else if (vb <=? a) && (a <? vb + VCPU_SIZE * N_CORES)
  then let p := (a - vb) / VCPU_SIZE in
       let off := (a - vb) mod VCPU_SIZE in
       match nth_error cs (Z.to_nat p) with
       | Some c => if off =? VCPU_CPU_STATE then cs_state c mod 256
                   else if off =? VCPU_APP_ID then cs_app c mod 256 else 0
       | None => 0
       end
  else 0.

Definition mread (m : machine) (vb : Z) (cs : list core_st) (addr len : Z) : list Z :=
  map (fun i => mem_byte m vb cs (addr + Z.of_nat i)) (seq 0 (Z.to_nat len)).

(* a machine description gives vcpu_base per chip as a table with a default *)
Definition vcpu_table (t : list (chip * Z)) (d : Z) : chip -> Z :=
  fun xy => match cassoc xy t with Some v => v | None => d end.

(* ---------------------------------------------------------------- flood fill, one chip *)
Definition set_fill (c : chip_st) (f : option fill_st) : chip_st := mkChip (ch_cores c) f.

Definition selected (sel : list (Z * Z)) (x y p : Z) : bool :=
  existsb (fun rc => pair_selects rc x y p) sel.

Fixpoint load_cores (sel : list (Z * Z)) (x y : Z) (newc : core_st) (p : Z) (cs : list core_st)
  : list core_st :=
  match cs with
  | [] => []
  | c :: r => (if selected sel x y p then newc else c) :: load_cores sel x y newc (p + 1) r
  end.

Definition chip_nn (base : Z) (xy : chip) (a1 a2 : Z) (c : chip_st) : chip_st :=
  let op := field a1 24 8 in
  if op =? NN_FFS then
    set_fill c (Some (mkFill (field a1 16 8) (field a1 8 8) [] 0 base [] false))
  else if op =? NN_FFCS then
    match ch_fill c with
    | Some f =>
        if selects a2 (fst xy) (snd xy)
        then set_fill c (Some (mkFill (f_pid f) (f_n f) (f_sel f ++ [(a2, field a1 0 18)])
                                      (f_next f) (f_addr f) (f_data f) (f_err f)))
        else c
    | None => c
    end
  else if op =? NN_FFE then
    match ch_fill c with
    | Some f =>
        if (f_pid f =? field a1 0 8) && negb (f_err f) && (f_next f =? f_n f)
        then mkChip (load_cores (f_sel f) (fst xy) (snd xy)
                                (mkCore (if Z.odd (field a2 18 6) then STATE_WAIT else STATE_RUN)
                                        (field a2 24 8) (f_data f))
                                0 (ch_cores c))
                    None
        else set_fill c None
    | None => c
    end
  else c.

Definition chip_ffd (a1 a2 a3 : Z) (data : list Z) (c : chip_st) : chip_st :=
  match ch_fill c with
  | Some f =>
      if f_pid f =? field a1 0 8 then
        let nbytes := 4 * (field a2 8 8 + 1) in
        if (field a2 16 8 =? f_next f) && (a3 =? f_addr f) && (nbytes <=? zlen data)
        then set_fill c (Some (mkFill (f_pid f) (f_n f) (f_sel f) (f_next f + 1) (f_addr f + nbytes)
                                      (f_data f ++ firstn (Z.to_nat nbytes) data) (f_err f)))
        else set_fill c (Some (mkFill (f_pid f) (f_n f) (f_sel f) (f_next f) (f_addr f) (f_data f) true))
      else c
  | None => c
  end.

(* apply a packet's effect to every chip that is listening to the current fill *)
Definition broadcast (deaf : list chip) (f : chip -> chip_st -> chip_st) (cs : list (chip * chip_st))
  : list (chip * chip_st) :=
  map (fun e => if chip_mem (fst e) deaf then e else (fst e, f (fst e) (snd e))) cs.

(* ---------------------------------------------------------------- signals *)
Definition app_match (mask app : Z) (c : core_st) : bool :=
  Z.land (cs_app c) mask =? Z.land app mask.

Definition all_cores (cs : list (chip * chip_st)) : list core_st :=
  flat_map (fun e => ch_cores (snd e)) cs.

Definition count_state (state mask app : Z) (cs : list (chip * chip_st)) : Z :=
  zlen (filter (fun c => (cs_state c =? state) && app_match mask app c) (all_cores cs)).

Definition start_core (mask app : Z) (c : core_st) : core_st :=
  if (cs_state c =? STATE_WAIT) && app_match mask app c
  then mkCore STATE_RUN (cs_app c) (cs_image c) else c.

Definition map_cores (f : core_st -> core_st) (cs : list (chip * chip_st)) : list (chip * chip_st) :=
  map (fun e => (fst e, mkChip (map f (ch_cores (snd e))) (ch_fill (snd e)))) cs.

(* ---------------------------------------------------------------- one command *)
Definition set_chips (m : machine) (cs : list (chip * chip_st)) : machine :=
  mkMachine (m_buffer m) (m_base m) (m_vcpu m) cs (m_sched m) (m_deaf m).

(* the chip that answers: (255, 255) is the chip the host is connected to (the first one) *)
Definition dest_chip (m : machine) (x y : Z) : option (chip * chip_st) :=
  if (x =? 255) && (y =? 255) then hd_error (m_chips m)
  else match cassoc (x, y) (m_chips m) with
       | Some c => Some ((x, y), c)
       | None => None
       end.

Definition mstep (m : machine) (q : pkt) : machine * reply :=
  match dest_chip m (q_x q) (q_y q) with
  | None => (m, RError)
  | Some (xy, c) =>
      let cmd := q_cmd q in
      if cmd =? CMD_VER then (m, RSver (m_buffer m))
      else if cmd =? CMD_READ then
        if q_a2 q >? m_buffer m then (m, RError)
        else (m, RData (mread m (m_vcpu m xy) (ch_cores c) (q_a1 q) (q_a2 q)))
      else if cmd =? CMD_NNP then
        let m1 := if field (q_a1 q) 24 8 =? NN_FFS
                  then mkMachine (m_buffer m) (m_base m) (m_vcpu m) (m_chips m)
                                 (tl (m_sched m)) (hd [] (m_sched m))
                  else m in
        (set_chips m1 (broadcast (m_deaf m1) (fun xy c => chip_nn (m_base m) xy (q_a1 q) (q_a2 q) c)
                                 (m_chips m1)),
         RArgs 0)
      else if cmd =? CMD_FFD then
        (set_chips m (broadcast (m_deaf m) (fun _ c => chip_ffd (q_a1 q) (q_a2 q) (q_a3 q) (q_data q) c)
                                (m_chips m)),
         RArgs 0)
      else if cmd =? CMD_SIG then
        let mask := field (q_a2 q) 8 8 in
        let app := field (q_a2 q) 0 8 in
        if q_a1 q =? 1 then
          if field (q_a2 q) 20 2 =? 2
          then (m, RArgs (count_state (field (q_a2 q) 16 4) mask app (m_chips m)))
          else (m, RArgs 0)
        else if field (q_a2 q) 16 8 =? SIG_START
        then (set_chips m (map_cores (start_core mask app) (m_chips m)), RArgs 0)
        else (m, RArgs 0)
      else (m, RError)
  end.

(* the machine's replies to a given sequence of packets (trace validator) *)
Fixpoint replay (m : machine) (qs : list pkt) : machine * list reply :=
  match qs with
  | [] => (m, [])
  | q :: r => let (m1, a) := mstep m q in
              let (m2, l) := replay m1 r in (m2, a :: l)
  end.

(* ================================================================ PART 2: the controller *)
Record world := mkWorld { w_m : machine; w_log : list (pkt * reply) }.   (* log: latest first *)

Record ctrl := mkCtrl {
  c_nn : Z;                  (* self._nn_id *)
  c_buffer : option Z }.     (* self._scp_data_length *)

Definition ctrl_init : ctrl := mkCtrl nn_id_init None.

(* what struct.pack accepts in SCPPacket.bytestring *)
Definition word32 (v : Z) : bool := (0 <=? v) && (v <? 4294967296).
Definition packable (q : pkt) : bool :=
  (0 <=? q_x q) && (q_x q <? 256) && (0 <=? q_y q) && (q_y q <? 256)
  && (0 <=? q_cmd q) && (q_cmd q <? 65536)
  && word32 (q_a1 q) && word32 (q_a2 q) && word32 (q_a3 q).

(* SCPConnection.send_scp: struct.error for a field that does not fit; FatalReturnCodeError for a
   fatal return code *)
Definition send (w : world) (q : pkt) : result (world * reply) :=
  if packable q then
    let (m1, r) := mstep (w_m w) q in
    match r with
    | RError => OtherError
    | _ => Ok (mkWorld m1 ((q, r) :: w_log w), r)
    end
  else OtherError.

Definition send_ (w : world) (q : pkt) : result world :=
  bind (send w q) (fun wr => Ok (fst wr)).

(* the scp_data_length property *)
Definition get_buffer (c : ctrl) (w : world) : result (ctrl * world * Z) :=
  match c_buffer c with
  | Some b => Ok (c, w, b)
  | None =>
      bind (send w (mkPkt 255 255 0 SCPCommands_sver 0 0 0 [])) (fun wr =>
        match snd wr with
        | RSver b => Ok (mkCtrl (c_nn c) (Some b), fst wr, b)
        | _ => OtherError
        end)
  end.

Fixpoint dtype_lookup (k : Z * Z) (t : list ((Z * Z) * Z)) : option Z :=
  match t with
  | [] => None
  | (k', v) :: r => if (fst k =? fst k') && (snd k =? snd k') then Some v else dtype_lookup k r
  end.

(* SCPConnection.read: one read command per buffer-full *)
Fixpoint read_loop (fuel : nat) (w : world) (x y p addr len buffer : Z) (acc : list Z)
  : result (world * list Z) :=
  if len >? 0 then
    match fuel with
    | O => OutOfFuel
    | S k =>
        let bs := Z.min len buffer in
        match dtype_lookup (addr mod 4, bs mod 4) address_length_dtype with
        | None => OtherError
        | Some dt =>
            bind (send w (mkPkt x y p SCPCommands_read addr bs dt [])) (fun wr =>
              match snd wr with
              | RData d =>
                  if zlen d =? bs
                  then read_loop k (fst wr) x y p (addr + bs) (len - bs) buffer (acc ++ d)
                  else OtherError
              | _ => OtherError
              end)
        end
    end
  else Ok (w, acc).

(* MachineController.read *)
Definition read (c : ctrl) (w : world) (x y p addr len : Z) : result (ctrl * world * list Z) :=
  bind (get_buffer c w) (fun cwb =>
    let '(c1, w1, buffer) := cwb in
    if buffer <=? 0 then OtherError
    else bind (read_loop (S (Z.to_nat len)) w1 x y p addr len buffer []) (fun wd =>
           Ok (c1, fst wd, snd wd))).

(* read_struct_field("sv", <a 32-bit field>, x, y) *)
Definition read_sv_word (c : ctrl) (w : world) (offset x y : Z) : result (ctrl * world * Z) :=
  bind (read c w x y 0 (sv_base + offset) 4) (fun cwd =>
    match of_le32 (snd cwd) with
    | Some v => Ok (fst cwd, v)
    | None => OtherError
    end).

(* read_vcpu_struct_field("cpu_state", x, y, p) *)
Definition read_cpu_state (c : ctrl) (w : world) (x y p : Z) : result (ctrl * world * Z) :=
  bind (read_sv_word c w sv_vcpu_base_offset x y) (fun cwv =>
    let '(c1, w1, vbase) := cwv in
    bind (read c1 w1 x y 0 (vbase + vcpu_size * p + vcpu_cpu_state_offset) vcpu_cpu_state_size) (fun cwd =>
      match snd cwd with
      | [b] => Ok (fst cwd, b)
      | _ => OtherError
      end)).

(* ---------------------------------------------------------------- flood fill *)
Definition targets := list (chip * list Z).
Definition appmap := list (Z * targets).          (* binary (index) -> targets *)

Definition cores_of_targets (ts : targets) : list core :=
  flat_map (fun t => map (fun p => (fst (fst t), snd (fst t), p)) (snd t)) ts.

Fixpoint send_ffcs_all (w : world) (fills : list (Z * Z)) (fr : Z) : result world :=
  match fills with
  | [] => Ok w
  | (region, cores) :: r =>
      bind (send_ w (mkPkt ffcs_x ffcs_y ffcs_p ffcs_cmd (ffcs_arg1 cores) (ffcs_arg2 region) (ffcs_arg3 fr) []))
           (fun w1 => send_ffcs_all w1 r fr)
  end.

Fixpoint send_ffd (fuel : nat) (w : world) (pid : Z) (data : list Z) (buffer pos block address : Z)
  : result world :=
  if ffd_continue pos (zlen data) then
    match fuel with
    | O => OutOfFuel
    | S k =>
        let chunk := slice data pos (pos + buffer) in
        let data_size := zlen chunk in
        bind (send_ w (mkPkt ffd_x ffd_y ffd_p ffd_cmd (ffd_arg1 pid) (ffd_arg2 block data_size)
                             (ffd_arg3 address) chunk))
             (fun w1 => send_ffd k w1 pid data buffer (ffd_next_pos pos data_size) (ffd_next_block block)
                                 (ffd_next_address address data_size))
    end
  else Ok w.

(* the body of the `for (aplx, targets) in iteritems(application_map)` loop of flood_fill_aplx *)
Definition fill_one (c : ctrl) (w : world) (app_id flags : Z) (data : list Z) (ts : targets)
  : result (ctrl * world) :=
  match compress (cores_of_targets ts) with
  | Ok fills =>
      bind (get_buffer c w) (fun cwb =>
        let '(c1, w1, buffer) := cwb in
        if buffer =? 0 then OtherError else
        let n_blocks := ff_n_blocks (zlen data) buffer in
        let nn := next_nn_id (c_nn c1) in
        let pid := nn_id_wire nn in
        let c2 := mkCtrl nn (c_buffer c1) in
        bind (send_ w1 (mkPkt ffs_x ffs_y ffs_p ffs_cmd (ffs_arg1 pid n_blocks) ffs_arg2 (ffs_arg3 ff_fr) []))
             (fun w2 =>
        bind (send_ffcs_all w2 fills ff_fr) (fun w3 =>
        bind (read_sv_word c2 w3 sv_sdram_sys_offset 255 255) (fun cwa =>
          let '(c3, w4, base) := cwa in
        bind (send_ffd (S (length data)) w4 pid data buffer ffd_pos0 ffd_block0 base) (fun w5 =>
        bind (send_ w5 (mkPkt ffe_x ffe_y ffe_p ffe_cmd (ffe_arg1 pid) (ffe_arg2 app_id flags)
                              (ffe_arg3 ff_fr) []))
             (fun w6 => Ok (c3, w6)))))))
  | _ => OtherError                       (* ValueError of RegionCoreTree.add_core *)
  end.

Definition ff_flags (wait : bool) : Z := if wait then ff_flags_wait ff_flags0 else ff_flags0.

(* flood_fill_aplx(application_map, app_id=app_id, wait=wait); [bins] are the files *)
Fixpoint flood_fill_aplx (bins : list (list Z)) (c : ctrl) (w : world) (am : appmap) (app_id : Z) (wait : bool)
  : result (ctrl * world) :=
  match am with
  | [] => Ok (c, w)
  | (b, ts) :: r =>
      match nth_error bins (Z.to_nat b) with
      | None => OtherError                (* open() fails *)
      | Some data =>
          bind (fill_one c w app_id (ff_flags wait) data ts) (fun cw =>
            flood_fill_aplx bins (fst cw) (snd cw) r app_id wait)
      end
  end.

(* ---------------------------------------------------------------- signals *)
Definition send_signal_start (w : world) (app_id : Z) : result world :=
  send_ w (mkPkt signal_x signal_y signal_p signal_cmd (signal_arg1 signal_type_start)
                 (signal_arg2 load_start_signal app_id) signal_arg3 []).

Definition count_cores_wait (w : world) (app_id : Z) : result (world * Z) :=
  bind (send w (mkPkt count_x count_y count_p count_cmd count_arg1 (count_arg2 load_count_state app_id)
                      count_arg3 []))
       (fun wr => match snd wr with
                  | RArgs n => Ok (fst wr, n)
                  | _ => OtherError
                  end).

(* ---------------------------------------------------------------- load_application *)
Inductive outcome :=
| Returned
| LoadingError (unloaded : appmap).       (* SpiNNakerLoadingError(unloaded): .app_map *)

(* SpiNNakerLoadingError.__str__: the cores the message lists -- "(x, y, p)" for every core of every chip of
   every binary of the map, in map order *)
Definition error_cores (unloaded : appmap) : list core :=
  flat_map (fun bt => cores_of_targets (snd bt)) unloaded.

Definition core_count (am : appmap) : Z :=
  fold_right Z.add 0 (map (fun bt => fold_right Z.add 0 (map (fun t => zlen (snd t)) (snd bt))) am).

Definition is_member (v : Z) (l : list Z) : bool := existsb (Z.eqb v) l.

(* for p in cores: ... if state is not AppState.wait: unloaded_cores.add(p) *)
Fixpoint check_cores (c : ctrl) (w : world) (x y : Z) (ps : list Z) : result (ctrl * world * list Z) :=
  match ps with
  | [] => Ok (c, w, [])
  | p :: r =>
      bind (read_cpu_state c w x y p) (fun cws =>
        let '(c1, w1, s) := cws in
        if is_member s AppState_members then           (* consts.AppState(value) *)
          bind (check_cores c1 w1 x y r) (fun cwl =>
            Ok (fst cwl, if s =? load_loaded_state then snd cwl else p :: snd cwl))
        else OtherError)
  end.

Fixpoint check_targets (c : ctrl) (w : world) (ts : targets) : result (ctrl * world * targets) :=
  match ts with
  | [] => Ok (c, w, [])
  | (xy, ps) :: r =>
      bind (check_cores c w (fst xy) (snd xy) ps) (fun cwl =>
        let '(c1, w1, un) := cwl in
        bind (check_targets c1 w1 r) (fun cwt =>
          Ok (fst cwt, match un with [] => snd cwt | _ => (xy, un) :: snd cwt end)))
  end.

Fixpoint check_map (c : ctrl) (w : world) (am : appmap) : result (ctrl * world * appmap) :=
  match am with
  | [] => Ok (c, w, [])
  | (b, ts) :: r =>
      bind (check_targets c w ts) (fun cwt =>
        let '(c1, w1, un) := cwt in
        bind (check_map c1 w1 r) (fun cwm =>
          Ok (fst cwm, match un with [] => snd cwm | _ => (b, un) :: snd cwm end)))
  end.

Definition is_empty {A} (l : list A) : bool := match l with [] => true | _ => false end.

Record load_args := mkArgs { a_app : Z; a_wait : bool; a_tries : Z; a_count : bool }.

(* the retry loop; [atts] collects, latest first, the map each attempt was addressed to and the state
   of the machine at that moment (ghost: it influences nothing) *)
Fixpoint load_loop (fuel : nat) (bins : list (list Z)) (a : load_args) (total : Z)
         (c : ctrl) (w : world) (unl : appmap) (tries : Z) (atts : list (appmap * machine))
  : result (ctrl * world * appmap * list (appmap * machine)) :=
  if negb (is_empty unl) && load_continue tries (a_tries a) then
    match fuel with
    | O => OutOfFuel
    | S k =>
        let tries1 := load_next_tries tries in
        bind (flood_fill_aplx bins c w unl (a_app a) load_fill_wait) (fun cw =>
          let c1 := fst cw in
          let w1 := snd cw in
          bind (if a_count a
                then bind (count_cores_wait w1 (a_app a)) (fun wn => Ok (fst wn, total =? snd wn))
                else Ok (w1, false))
               (fun wb =>
                  if snd wb
                  then load_loop k bins a total c1 (fst wb) [] tries1 ((unl, w_m w) :: atts)
                  else bind (check_map c1 (fst wb) unl) (fun cwm =>
                         let '(c2, w2, unl1) := cwm in
                         load_loop k bins a total c2 w2 unl1 tries1 ((unl, w_m w) :: atts))))
    end
  else Ok (c, w, unl, atts).

Definition load_fuel (a : load_args) : nat := S (Z.to_nat (a_tries a + 1)).

Definition load_application (bins : list (list Z)) (c : ctrl) (w : world) (am : appmap) (a : load_args)
  : result (ctrl * world * outcome * list (appmap * machine)) :=
  bind (load_loop (load_fuel a) bins a (core_count am) c w am load_tries0 []) (fun r =>
    let '(c1, w1, unl, atts) := r in
    if negb (is_empty unl) then Ok (c1, w1, LoadingError unl, rev atts)
    else if negb (a_wait a)
    then bind (send_signal_start w1 (a_app a)) (fun w2 => Ok (c1, w2, Returned, rev atts))
    else Ok (c1, w1, Returned, rev atts)).

(* ================================================================ harness entry points *)
(* One history: calls on one controller against one machine.  Each call: the map, the arguments, and
   whether it is load_application ([true]) or a bare flood_fill_aplx ([false]). *)
Definition call := (bool * appmap * load_args)%type.

Inductive call_result :=
| CReturned
| CLoadingError (unloaded : appmap)
| COther
| CNoFuel.

Definition run_call (bins : list (list Z)) (c : ctrl) (m : machine) (k : call)
  : call_result * ctrl * machine * list (pkt * reply) :=
  let '(is_load, am, a) := k in
  let w := mkWorld m [] in
  if is_load then
    match load_application bins c w am a with
    | Ok (c1, w1, Returned, _) => (CReturned, c1, w_m w1, rev (w_log w1))
    | Ok (c1, w1, LoadingError u, _) => (CLoadingError u, c1, w_m w1, rev (w_log w1))
    | OutOfFuel => (CNoFuel, c, m, [])
    | _ => (COther, c, m, [])
    end
  else
    match flood_fill_aplx bins c w am (a_app a) (a_wait a) with
    | Ok (c1, w1) => (CReturned, c1, w_m w1, rev (w_log w1))
    | OutOfFuel => (CNoFuel, c, m, [])
    | _ => (COther, c, m, [])
    end.

(* the history stops at the first call that raises something else than the loading error (the state
   of the world after such a call is not modelled) *)
Fixpoint run_calls (bins : list (list Z)) (c : ctrl) (m : machine) (ks : list call)
  : list (call_result * ctrl * machine * list (pkt * reply)) :=
  match ks with
  | [] => []
  | k :: r =>
      let res := run_call bins c m k in
      let '(o, c1, m1, _) := res in
      res :: match o with
             | COther | CNoFuel => []
             | _ => run_calls bins c1 m1 r
             end
  end.

(* ---------------------------------------------------------------- comparison helpers *)
Fixpoint zlist_eqb (a b : list Z) : bool :=
  match a, b with
  | [], [] => true
  | x :: r, y :: s => (x =? y) && zlist_eqb r s
  | _, _ => false
  end.

Definition pkt_eqb (a b : pkt) : bool :=
  (q_x a =? q_x b) && (q_y a =? q_y b) && (q_p a =? q_p b) && (q_cmd a =? q_cmd b)
  && (q_a1 a =? q_a1 b) && (q_a2 a =? q_a2 b) && (q_a3 a =? q_a3 b) && zlist_eqb (q_data a) (q_data b).

Definition reply_eqb (a b : reply) : bool :=
  match a, b with
  | RArgs x, RArgs y => x =? y
  | RData x, RData y => zlist_eqb x y
  | RSver x, RSver y => x =? y
  | RError, RError => true
  | _, _ => false
  end.

(* index of the first difference of two traces, or -1 *)
Fixpoint trace_diff (i : Z) (a b : list (pkt * reply)) : Z :=
  match a, b with
  | [], [] => -1
  | (q, r) :: a', (q', r') :: b' =>
      if pkt_eqb q q' && reply_eqb r r' then trace_diff (i + 1) a' b' else i
  | _, _ => i
  end.

Fixpoint replies_diff (i : Z) (a b : list reply) : Z :=
  match a, b with
  | [], [] => -1
  | r :: a', r' :: b' => if reply_eqb r r' then replies_diff (i + 1) a' b' else i
  | _, _ => i
  end.

Definition core_eqb_st (a b : core_st) : bool :=
  (cs_state a =? cs_state b) && (cs_app a =? cs_app b) && zlist_eqb (cs_image a) (cs_image b).

Fixpoint cores_eqb (a b : list core_st) : bool :=
  match a, b with
  | [], [] => true
  | x :: r, y :: s => core_eqb_st x y && cores_eqb r s
  | _, _ => false
  end.

(* the observable state of the machine: every core of every chip, in order *)
Fixpoint chips_eqb (a : list (chip * chip_st)) (b : list (chip * list core_st)) : bool :=
  match a, b with
  | [], [] => true
  | (xy, c) :: r, (xy', cs) :: s => chip_eqb xy xy' && cores_eqb (ch_cores c) cs && chips_eqb r s
  | _, _ => false
  end.

(* ---------------------------------------------------------------- what the check prints per history *)
(* the implementation's side of one call: the datagrams the simulator received with its replies, and the
   state of every core afterwards *)
Definition impl_call := (list (pkt * reply) * list (chip * list core_st))%type.

(* controller + machine model against the implementation: per call the outcome, the nn id afterwards, the
   index of the first difference between the two traces (-1: none), whether every core ends in the
   same state, and the cores the error's message lists *)
Fixpoint observe (res : list (call_result * ctrl * machine * list (pkt * reply))) (impl : list impl_call)
  : list (call_result * Z * Z * bool * list core) :=
  match res, impl with
  | (o, c, m, tr) :: r, (itr, ist) :: s =>
      (o, c_nn c, trace_diff 0 tr itr, chips_eqb (m_chips m) ist,
       match o with CLoadingError u => error_cores u | _ => [] end) :: observe r s
  | _, _ => []
  end.

(* trace validator: the machine model alone, fed with the datagrams the implementation really sent, must
   give the simulator's replies and reach the simulator's states *)
Fixpoint validate (m : machine) (impl : list impl_call) : list (Z * bool) :=
  match impl with
  | [] => []
  | (tr, st) :: r =>
      let (m1, rs) := replay m (map fst tr) in
      (replies_diff 0 rs (map snd tr), chips_eqb (m_chips m1) st) :: validate m1 r
  end.

Definition idle_core : core_st := mkCore 15 0 [].
