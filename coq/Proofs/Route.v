(* C03 -- soundness of the validators check_tree and check_connected (Spec/Route.v). *)
From Coq Require Import ZArith List Bool Lia Relations.
Require Import Rig.Model.Base Rig.Model.Route Rig.Spec.Route.
Import ListNotations.
Open Scope Z_scope.

(* ------------------------------------------------------------------------------------------------
   boolean equalities *)
Lemma rt_chip_eqb_eq : forall a b : chip, chip_eqb a b = true <-> a = b.
Proof.
  intros [a1 a2] [b1 b2]. unfold chip_eqb. simpl.
  rewrite andb_true_iff, !Z.eqb_eq. split.
  - intros [H1 H2]. subst. reflexivity.
  - intros H. inversion H. auto.
Qed.

Lemma rt_chip_eqb_refl : forall a : chip, chip_eqb a a = true.
Proof. intros a. apply rt_chip_eqb_eq. reflexivity. Qed.

Lemma rt_chip_mem_In : forall (c : chip) l, chip_mem c l = true <-> In c l.
Proof.
  intros c l. unfold chip_mem. rewrite existsb_exists. split.
  - intros [x [Hin Heq]]. apply rt_chip_eqb_eq in Heq. subst. exact Hin.
  - intros Hin. exists c. split; [exact Hin | apply rt_chip_eqb_refl].
Qed.

Lemma rt_chip_mem_false : forall (c : chip) l, chip_mem c l = false <-> ~ In c l.
Proof.
  intros c l. split.
  - intros H Hin. apply rt_chip_mem_In in Hin. congruence.
  - intros H. destruct (chip_mem c l) eqn:E; [|reflexivity]. apply rt_chip_mem_In in E. contradiction.
Qed.

Lemma rt_opt_eqb_eq : forall a b, opt_eqb a b = true <-> a = b.
Proof.
  intros [a|] [b|]; simpl; split; intros H; try congruence; try discriminate.
  - apply Z.eqb_eq in H. subst. reflexivity.
  - inversion H. apply Z.eqb_refl.
Qed.

Lemma rt_nodup_chips_sound : forall l, nodup_chips l = true -> NoDup l.
Proof.
  induction l as [|c l IH]; simpl; intros H.
  - constructor.
  - apply andb_true_iff in H. destruct H as [Hc Hl]. constructor.
    + apply negb_true_iff in Hc. apply rt_chip_mem_false in Hc. exact Hc.
    + apply IH. exact Hl.
Qed.

(* ------------------------------------------------------------------------------------------------
   live hardware: the booleans of the model decide the specification's predicates *)
Lemma rt_chip_alive_iff : forall m c, chip_alive m c = true <-> working_chip m c.
Proof.
  intros m c. unfold chip_alive, working_chip.
  rewrite !andb_true_iff, negb_true_iff, rt_chip_mem_false, !Z.leb_le, !Z.ltb_lt. tauto.
Qed.

Lemma rt_dead_link_mem_In : forall c l dl, dead_link_mem c l dl = true <-> In (c, l) dl.
Proof.
  intros c l dl. unfold dead_link_mem. rewrite existsb_exists. split.
  - intros [[c' l'] [Hin Heq]]. simpl in Heq. apply andb_true_iff in Heq. destruct Heq as [H1 H2].
    apply rt_chip_eqb_eq in H1. apply Z.eqb_eq in H2. subst. exact Hin.
  - intros Hin. exists (c, l). split; [exact Hin|]. simpl.
    rewrite rt_chip_eqb_refl, Z.eqb_refl. reflexivity.
Qed.

Lemma rt_link_alive_iff : forall m c l, link_alive m c l = true <-> working_link m c l.
Proof.
  intros m c l. unfold link_alive, working_link.
  rewrite andb_true_iff, rt_chip_alive_iff, negb_true_iff. split.
  - intros [Hc Hl]. split; [exact Hc|]. intros Hin. apply rt_dead_link_mem_In in Hin. congruence.
  - intros [Hc Hl]. split; [exact Hc|]. destruct (dead_link_mem c l (rm_dead_links m)) eqn:E; [|reflexivity].
    apply rt_dead_link_mem_In in E. contradiction.
Qed.

Lemma rt_dir_vec_six : forall l, 0 <= l <= 5 -> exists dx dy, dir_vec l = Some (dx, dy).
Proof.
  intros l Hl.
  assert (H : l = 0 \/ l = 1 \/ l = 2 \/ l = 3 \/ l = 4 \/ l = 5) by lia.
  destruct H as [H|[H|[H|[H|[H|H]]]]]; subst l; unfold dir_vec; simpl; eauto.
Qed.

Lemma rt_spec_step_adjacent : forall m p l, 0 <= l <= 5 -> adjacent m p l (spec_step m p l).
Proof.
  intros m p l Hl. destruct (rt_dir_vec_six l Hl) as [dx [dy Hd]].
  unfold adjacent, spec_step. rewrite Hd. exists dx, dy. split; reflexivity.
Qed.

Lemma rt_hop_okb_sound : forall m p r c,
    hop_okb m (p, r, c) = true -> exists l, r = Some l /\ hop_ok m p l c.
Proof.
  intros m p r c H. unfold hop_okb in H. destruct r as [l|]; [|discriminate].
  rewrite !andb_true_iff in H. destruct H as [[[H0 H5] Hl] Hc].
  apply Z.leb_le in H0. apply Z.leb_le in H5.
  apply rt_link_alive_iff in Hl. apply rt_chip_eqb_eq in Hc.
  exists l. split; [reflexivity|]. split; [exact Hl|]. subst c.
  apply rt_spec_step_adjacent. lia.
Qed.

(* ------------------------------------------------------------------------------------------------
   check_tree *)
Lemma rt_leaf_eqb_eq : forall a b, leaf_eqb a b = true <-> a = b.
Proof.
  intros [[c1 r1] v1] [[c2 r2] v2]. unfold leaf_eqb.
  rewrite !andb_true_iff, rt_chip_eqb_eq, rt_opt_eqb_eq, Z.eqb_eq. split.
  - intros [[H1 H2] H3]. subst. reflexivity.
  - intros H. inversion H. auto.
Qed.

Lemma rt_leaf_allowed_sound : forall sinks c r v,
    leaf_allowed sinks (c, r, v) = true -> exists rs, In (v, c, rs) sinks /\ In r rs.
Proof.
  intros sinks c r v H. unfold leaf_allowed in H. apply existsb_exists in H.
  destruct H as [[[v' c'] rs] [Hin H]]. rewrite !andb_true_iff in H. destruct H as [[Hv Hc] Hr].
  apply Z.eqb_eq in Hv. apply rt_chip_eqb_eq in Hc. apply existsb_exists in Hr.
  destruct Hr as [r' [Hr' He]]. apply rt_opt_eqb_eq in He. subst.
  exists rs. split; assumption.
Qed.

Lemma rt_sink_present_sound : forall lvs v c rs r,
    sink_present lvs (v, c, rs) = true -> In r rs -> In (c, r, v) lvs.
Proof.
  intros lvs v c rs r H Hr. unfold sink_present in H. rewrite forallb_forall in H.
  specialize (H r Hr). apply existsb_exists in H. destruct H as [x [Hx He]].
  apply rt_leaf_eqb_eq in He. subst x. exact Hx.
Qed.

Theorem check_tree_sound : forall m src sinks t,
    check_tree m src sinks t = true -> ValidTree m src sinks t.
Proof.
  intros m src sinks t H. unfold check_tree in H. rewrite !andb_true_iff in H.
  destruct H as [[[[Hroot Hnd] Hhops] Hleaves] Hsinks].
  unfold ValidTree. repeat split.
  - destruct t as [c kids|v]; simpl in *; [|discriminate].
    apply rt_chip_eqb_eq in Hroot. subst. reflexivity.
  - apply rt_nodup_chips_sound. exact Hnd.
  - intros p r c Hin. rewrite forallb_forall in Hhops. apply rt_hop_okb_sound. apply Hhops. exact Hin.
  - intros c r v Hin. rewrite forallb_forall in Hleaves. apply rt_leaf_allowed_sound.
    apply Hleaves. exact Hin.
  - intros v c rs r Hin Hr. rewrite forallb_forall in Hsinks.
    apply (rt_sink_present_sound _ v c rs r); [apply Hsinks; exact Hin | exact Hr].
Qed.

(* ------------------------------------------------------------------------------------------------
   check_connected *)
Lemma rt_reach_trans : forall m a b c, reach m a b -> reach m b c -> reach m a c.
Proof.
  intros m a b c Hab Hbc. unfold reach in *. induction Hab as [|x y z Hxy Hyz IH].
  - exact Hbc.
  - eapply Relation_Operators.rt1n_trans; [exact Hxy | apply IH; exact Hbc].
Qed.

Lemma rt_reach_edge : forall m a b, edge m a b -> reach m a b.
Proof. intros m a b H. unfold reach. eapply Relation_Operators.rt1n_trans; [exact H | apply Relation_Operators.rt1n_refl]. Qed.

Lemma rt_fold_add_new_inv : forall (P : chip -> Prop) ns seen fr,
    (forall n, In n ns -> P n) ->
    (forall x, In x seen -> P x) -> (forall x, In x fr -> In x seen) ->
    (forall x, In x (fst (fold_left add_new ns (seen, fr))) -> P x) /\
    (forall x, In x (snd (fold_left add_new ns (seen, fr))) ->
               In x (fst (fold_left add_new ns (seen, fr)))).
Proof.
  intros P ns. induction ns as [|n ns IH]; intros seen fr Hns Hseen Hfr; simpl.
  - split; assumption.
  - assert (Hstep : exists seen' fr', add_new (seen, fr) n = (seen', fr') /\
                                      (forall x, In x seen' -> P x) /\ (forall x, In x fr' -> In x seen')).
    { unfold add_new. simpl. destruct (chip_mem n seen) eqn:E.
      - exists seen, fr. split; [reflexivity|]. split; assumption.
      - exists (seen ++ [n]), (fr ++ [n]). split; [reflexivity|]. split.
        + intros x Hx. apply in_app_or in Hx. destruct Hx as [Hx|[Hx|[]]].
          * apply Hseen. exact Hx.
          * subst. apply Hns. left. reflexivity.
        + intros x Hx. apply in_app_or in Hx. apply in_or_app. destruct Hx as [Hx|Hx].
          * left. apply Hfr. exact Hx.
          * right. exact Hx. }
    destruct Hstep as [seen' [fr' [Heq [H1 H2]]]]. rewrite Heq. apply IH.
    + intros k Hk. apply Hns. right. exact Hk.
    + exact H1.
    + exact H2.
Qed.

Lemma rt_search_sound : forall (P : chip -> Prop) next,
    (forall c n, P c -> In n (next c) -> P n) ->
    forall fuel seen fr,
      (forall x, In x seen -> P x) -> (forall x, In x fr -> In x seen) ->
      forall x, In x (search fuel next seen fr) -> P x.
Proof.
  intros P next Hstep fuel. induction fuel as [|fuel IH]; intros seen fr Hseen Hfr x Hx; simpl in Hx.
  - apply Hseen. exact Hx.
  - destruct fr as [|c fr].
    + apply Hseen. exact Hx.
    + destruct (fold_left add_new (next c) (seen, fr)) as [seen' fr'] eqn:E.
      assert (Hc : P c). { apply Hseen. apply Hfr. left. reflexivity. }
      destruct (rt_fold_add_new_inv P (next c) seen fr) as [H1 H2].
      * intros n Hn. eapply Hstep; [exact Hc | exact Hn].
      * exact Hseen.
      * intros y Hy. apply Hfr. right. exact Hy.
      * rewrite E in H1, H2. simpl in H1, H2. eapply IH; [exact H1 | exact H2 | exact Hx].
Qed.

Lemma rt_in_six : forall l, In l six -> 0 <= l <= 5.
Proof. intros l H. unfold six in H. simpl in H. lia. Qed.

Lemma rt_succs_edge : forall m c n, In n (succs m c) -> edge m c n.
Proof.
  intros m c n H. unfold succs in H. apply filter_In in H. destruct H as [H Hn].
  apply in_map_iff in H. destruct H as [l [Hl Hin]]. apply filter_In in Hin. destruct Hin as [H6 Hla].
  apply rt_chip_alive_iff in Hn. apply rt_link_alive_iff in Hla. apply rt_in_six in H6.
  split; [exact Hn|]. exists l. split; [exact Hla|]. subst n. apply rt_spec_step_adjacent. exact H6.
Qed.

Lemma rt_preds_edge : forall m c n, working_chip m c -> In n (preds m c) -> edge m n c /\ working_chip m n.
Proof.
  intros m c n Hc H. unfold preds in H. apply filter_In in H. destruct H as [Hlive H].
  apply existsb_exists in H. destruct H as [l [H6 H]]. apply andb_true_iff in H. destruct H as [Hla He].
  apply rt_link_alive_iff in Hla. apply rt_chip_eqb_eq in He. apply rt_in_six in H6.
  split.
  - split; [exact Hc|]. exists l. split; [exact Hla|]. subst c. apply rt_spec_step_adjacent. exact H6.
  - destruct Hla as [Hw _]. exact Hw.
Qed.

Lemma rt_in_zrange : forall n x, 0 <= x < n -> In x (zrange n).
Proof.
  intros n x H. unfold zrange. apply in_map_iff. exists (Z.to_nat x). split.
  - apply Z2Nat.id. lia.
  - apply in_seq. lia.
Qed.

Lemma rt_live_chips_complete : forall m c, working_chip m c -> In c (live_chips m).
Proof.
  intros m [x y] H. unfold live_chips. apply filter_In. split.
  - unfold all_chips. apply in_flat_map. destruct H as [Hx [Hy _]]. simpl in Hx, Hy.
    exists x. split; [apply rt_in_zrange; exact Hx|]. apply in_map_iff. exists y.
    split; [reflexivity | apply rt_in_zrange; exact Hy].
  - apply rt_chip_alive_iff. exact H.
Qed.

Theorem check_connected_sound : forall m, check_connected m = true -> Connected m.
Proof.
  intros m H a b Ha Hb. unfold check_connected in H.
  destruct (live_chips m) as [|c0 rest] eqn:E.
  - apply rt_live_chips_complete in Ha. rewrite E in Ha. destruct Ha.
  - apply andb_true_iff in H. destruct H as [Hc0 Hall]. apply rt_chip_alive_iff in Hc0.
    rewrite forallb_forall in Hall.
    assert (Hfwd : forall x, In x (search (S (length (c0 :: rest))) (succs m) [c0] [c0]) -> reach m c0 x).
    { apply (rt_search_sound (fun x => reach m c0 x)).
      - intros c n Hc Hn. eapply rt_reach_trans; [exact Hc|]. apply rt_reach_edge.
        apply rt_succs_edge. exact Hn.
      - intros x [Hx|[]]. subst. apply Relation_Operators.rt1n_refl.
      - intros x Hx. exact Hx. }
    assert (Hbwd : forall x, In x (search (S (length (c0 :: rest))) (preds m) [c0] [c0]) ->
                             working_chip m x /\ reach m x c0).
    { apply (rt_search_sound (fun x => working_chip m x /\ reach m x c0)).
      - intros c n [Hc Hr] Hn. destruct (rt_preds_edge m c n Hc Hn) as [He Hw]. split; [exact Hw|].
        eapply rt_reach_trans; [apply rt_reach_edge; exact He | exact Hr].
      - intros x [Hx|[]]. subst. split; [exact Hc0 | apply Relation_Operators.rt1n_refl].
      - intros x Hx. exact Hx. }
    apply rt_live_chips_complete in Ha. apply rt_live_chips_complete in Hb. rewrite E in Ha, Hb.
    pose proof (Hall a Ha) as Ha'. pose proof (Hall b Hb) as Hb'.
    apply andb_true_iff in Ha'. apply andb_true_iff in Hb'.
    destruct Ha' as [_ Ha']. destruct Hb' as [Hb' _].
    apply rt_chip_mem_In in Ha'. apply rt_chip_mem_In in Hb'.
    eapply rt_reach_trans; [apply Hbwd; exact Ha' | apply Hfwd; exact Hb'].
Qed.
