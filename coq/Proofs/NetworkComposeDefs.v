(* C01, premise discharge -- DEFINITIONS ONLY (no lemma, no proof in this file).

   The predicates in which the end-to-end theorems of Props/C01.v (C01_tables_of_trees_hop,
   C01_minimise_preserves_hop, C01_end_to_end_models ...) are stated.  They connect three models written by
   three properties:
     - C10  Model/Tables.v : routing_tree_to_tables, its own [tree] (TNode chip children / TLeaf vertex) and
            [Tables.entry] (route and sources as sorted lists of Routes, None = -1);
     - C04  Model/Table.v  : [entry] (route and sources as bit sets, None = bit 24), [lookup], the minimisers;
     - C01  Model/Network.v: the hardware ([route_at], [delivers]) and its per-chip [rtree].
   Unqualified [entry], [mkEntry], [e_route], [km] ... are those of Model/Table.v (imported last);
   C10's are written [Tables.entry] etc.

   They live here and not in Spec/Network.v so that the hardware specification does not come to depend on
   the models of other properties. *)
From Coq Require Import ZArith List Bool Permutation.
Require Import Rig.Model.Base.
Require Import Rig.Model.Tables Rig.Spec.Tables.
Require Import Rig.Model.Table Rig.Spec.Table Rig.Model.Network Rig.Spec.Network.
Import ListNotations.
Open Scope Z_scope.

(* ------------------------------------------------------------------------------------------------ *)
(** * C10's tables as the hardware sees them *)

(* the bit-set view of an entry: C10's [entry_bits] *)
Definition hw_entry (e : Tables.entry) : entry :=
  match Tables.entry_bits e with (r, k, m, s) => mkEntry r k m s end.

Definition hw_tables (T : list (chip * list Tables.entry)) : list (chip * table) :=
  map (fun ce => (fst ce, map hw_entry (snd ce))) T.

(* the port through which a node reached by travelling in direction [d] is entered; C10 writes the
   direction of a root as none_dir = -1 *)
Definition port_of (d : Z) : option Z := if d =? none_dir then None else Some (opposite d).

(* the bit of a sources word that stands for an arrival port (None is bit 24, as in Model/Table.v) *)
Definition src_bit (a : option Z) : Z := match a with Some l => l | None => 24 end.

(* the entry lists the port among its sources *)
Definition listed (e : entry) (a : option Z) : Prop := Z.testbit (e_sources e) (src_bit a) = true.

(* ------------------------------------------------------------------------------------------------ *)
(** * C10's trees as the hardware model's per-chip trees *)

(* the routes on which vertices hang at a node, each once (a sink listed twice, or two vertices on one
   route, make one route) *)
Definition leaf_routes (kids : list (option Z * tree)) : list Z :=
  nodup Z.eq_dec
        (flat_map (fun k => match fst k, snd k with Some r, TLeaf _ => [r] | _, _ => [] end) kids).

(* core routes are 6 + core number, link routes 0..5 *)
Definition leaf_cores (kids : list (option Z * tree)) : list Z :=
  map (fun r => r - 6) (filter (fun r => 6 <=? r) (leaf_routes kids)).
Definition leaf_exits (kids : list (option Z * tree)) : list Z :=
  filter (fun r => r <? 6) (leaf_routes kids).

(* the children that are subtrees, with the link they hang on *)
Definition sub_kids (f : tree -> rtree) : list (option Z * tree) -> list (Z * rtree) :=
  fix go (ks : list (option Z * tree)) : list (Z * rtree) :=
    match ks with
    | [] => []
    | k :: ks' =>
        match fst k, snd k with
        | Some d, TNode _ _ => (d, f (snd k)) :: go ks'
        | _, _ => go ks'
        end
    end.

(* a vertex (never at the top: routes values are RoutingTrees) becomes an empty node *)
Fixpoint rtree_of (t : tree) : rtree :=
  match t with
  | TLeaf _ => RNode (0, 0) [] [] []
  | TNode c kids => RNode c (leaf_cores kids) (leaf_exits kids) (sub_kids (fun t' => rtree_of t') kids)
  end.

(* the chips of the nodes of a tree *)
Fixpoint tchips (t : tree) : list chip :=
  match t with
  | TLeaf _ => []
  | TNode c kids => c :: flat_map (fun k => tchips (snd k)) kids
  end.

(* ------------------------------------------------------------------------------------------------ *)
(** * Valid trees (what C03 concludes, in the vocabulary of the hardware model) *)

(* a child of the node of chip [c]:
   - a subtree hangs on a link d in 0..5 that is not one of the net's endpoint links [E], is not dead and
     leads to the subtree's chip, which is not dead;
   - a vertex hangs on None or on a member of Routes (0..23). *)
Definition kid_hop_ok (m : nmachine) (E : list (chip * Z)) (c : chip) (k : option Z * tree) : Prop :=
  match snd k with
  | TNode c' _ =>
      exists d, fst k = Some d /\ 0 <= d < 6
                /\ ~ In (c, d) E /\ ~ In (c, d) (n_dead_links m)
                /\ c' = neighbour m c d /\ ~ In c' (n_dead_chips m)
  | TLeaf _ => match fst k with Some r => 0 <= r < 24 | None => True end
  end.

Fixpoint hops_ok (m : nmachine) (E : list (chip * Z)) (t : tree) {struct t} : Prop :=
  match t with
  | TLeaf _ => True
  | TNode c kids =>
      (fix go (ks : list (option Z * tree)) : Prop :=
         match ks with
         | [] => True
         | k :: ks' => kid_hop_ok m E c k /\ hops_ok m E (snd k) /\ go ks'
         end) kids
  end.

(* a RoutingTree in which every chip occurs at most once, every hop is a live link to the adjacent live
   chip, and no hop uses a link that is one of the tree's own endpoint links (a link on which a
   route-endpoint sink hangs: the hardware model sends such a copy out of the machine) *)
Definition valid_tree (m : nmachine) (t : tree) : Prop :=
  is_node t /\ NoDup (tchips t) /\ hops_ok m (tree_exits (rtree_of t)) t.

(* ------------------------------------------------------------------------------------------------ *)
(** * The nets *)

(* a key/mask pair of 32-bit words with no key bit outside the mask *)
Definition km32 (c : km) : Prop :=
  0 <= fst c <= 4294967295 /\ 0 <= snd c <= 4294967295 /\ Z.land (fst c) (Z.lnot (snd c)) = 0.

(* no 32-bit key is matched by both pairs *)
Definition km_disjoint (c1 c2 : km) : Prop :=
  forall k, key32 k -> km_matches c1 k = true -> km_matches c2 k = false.

(* [routes] : {net: RoutingTree}, [net_keys] : {net: (key, mask)} as in Model/Tables.v.
   - every routed net has a well-formed key and mask;
   - ORTHOGONALITY: the (key, mask) pairs of two different nets match no common 32-bit key
     (two nets with the identical key and mask -- allowed by rig when they fork identically -- are
     outside this statement);
   - every tree is valid on the machine. *)
Definition nets_ok (m : nmachine) (routes : list (Z * tree)) (net_keys : list (Z * km)) : Prop :=
  (forall n t, In (n, t) routes -> exists c, zassoc n net_keys = Some c /\ km32 c)
  /\ (forall n1 t1 n2 t2 c1 c2,
        In (n1, t1) routes -> In (n2, t2) routes -> n1 <> n2 ->
        zassoc n1 net_keys = Some c1 -> zassoc n2 net_keys = Some c2 -> km_disjoint c1 c2)
  /\ (forall n t, In (n, t) routes -> valid_tree m t).

(* ------------------------------------------------------------------------------------------------ *)
(** * Tables whose matching entry lists the arrival port at every node of a tree *)

(* at every node of [t] -- entered through [arrival] -- the key is matched, and the first matching entry
   lists that port among its sources (this is what C10 guarantees of generated tables; it is the side
   condition under which a minimiser may replace the entry by default routing) *)
Fixpoint tree_listed (tables : list (chip * table)) (key : Z) (arrival : option Z) (t : rtree)
         {struct t} : Prop :=
  match t with
  | RNode c _ _ kids =>
      (exists e, lookup (table_at tables c) key = Some e /\ listed e arrival)
      /\ kids_all (fun l t' => tree_listed tables key (Some (opposite l)) t') kids
  end.

(* every chip's table of [T'] routes like that chip's table of [T] (Spec/Table.v, C04) *)
Definition tables_route_eq (T T' : list (chip * table)) : Prop :=
  forall c, route_eq (table_at T c) (table_at T' c).

(* one chip's table was obtained from another by one of the modelled minimisers (or left alone), with
   whatever target, and the minimiser did not fail *)
Definition minimised_by_some_method (t t' : table) : Prop :=
  t' = t
  \/ (exists target, remove_default t target = Ok t')
  \/ (exists target, oc_minimise t target = Ok t')
  \/ (exists target, minimise_table t target = Ok t').
