(* C03 -- executable model of rig/place_and_route/route/ner.py (ner_net, copy_and_disconnect_tree,
   a_star, route_has_dead_links, avoid_dead_links, route), of route/utils.py:links_between, of
   Machine.__contains__ / has_wrap_around_links and of the RoutingTree data structure.
   Definitions only.

   Geometry.  The integer kernels come from Generated/GenGeometry.v (translated from the source text);
   shortest_torus_path, shortest_mesh_path, longest_dimension_first and concentric_hexagons are the
   hand-written models of Model/Geometry.v (property C11), used as they are.

   Randomness.  The code draws from the module attribute `random` of rig.geometry and of route.utils.
   The model takes the stream of drawn values as an explicit argument [stream]: each random.random()
   consumes one numerator k (the value is k / 2^53); each random.randint(lo, hi) consumes one integer k
   and returns lo + k mod (hi - lo + 1).  An exhausted stream yields 0.

   Node identity.  A RoutingTree object is identified with its chip: `lookup[chip]` is "the node whose
   chip is ...".  This is exact as long as no chip occurs twice, which is what the theorems of
   Proofs/Route*.v establish for ner_net and what the validator checks for every real output; the
   correspondence run compares the trees exactly (children in order).

   Set iteration order.  `for parent, child in broken_links` iterates a Python set; the order is an
   explicit argument (the harness logs it), defaulting to discovery order. *)
From Coq Require Import ZArith List Bool.
Require Import Rig.Model.Base Rig.Generated.GenGeometryLinks Rig.Generated.GenGeometry Rig.Model.Geometry.
Import ListNotations.
Open Scope Z_scope.

(* ------------------------------------------------------------------------------------------------
   Machine: width, height, dead chips, dead links (chip, link number) *)
Record rmachine := { rm_w : Z; rm_h : Z; rm_dead_chips : list chip; rm_dead_links : list (chip * Z) }.

(* (x, y) in machine *)
Definition chip_alive (m : rmachine) (c : chip) : bool :=
  (0 <=? fst c) && (fst c <? rm_w m) && (0 <=? snd c) && (snd c <? rm_h m)
  && negb (chip_mem c (rm_dead_chips m)).

Definition dead_link_mem (c : chip) (l : Z) (dl : list (chip * Z)) : bool :=
  existsb (fun d => chip_eqb c (fst d) && (l =? snd d)) dl.

(* (x, y, link) in machine *)
Definition link_alive (m : rmachine) (c : chip) (l : Z) : bool :=
  chip_alive m c && negb (dead_link_mem c l (rm_dead_links m)).

Definition b2z (b : bool) : Z := if b then 1 else 0.
Definition zrange (n : Z) : list Z := map Z.of_nat (seq 0 (Z.to_nat n)).

(* Machine.has_wrap_around_links(): float(working) / float(total) >= 0.9, i.e. 10*working >= 9*total
   (exact for every machine whose perimeter is below 10^14) *)
Definition wrap_working (m : rmachine) : Z :=
  let w := rm_w m in
  let h := rm_h m in
  fold_left (fun acc x =>
               acc + b2z (link_alive m (x, 0) Links_south) + b2z (link_alive m (x, h - 1) Links_north)
               + b2z (link_alive m (x, 0) Links_south_west)
               + b2z (link_alive m (x, h - 1) Links_north_east)) (zrange w) 0
  + fold_left (fun acc y =>
                 acc + b2z (link_alive m (0, y) Links_west) + b2z (link_alive m (w - 1, y) Links_east)
                 + b2z (negb (y =? 0) && link_alive m (0, y) Links_south_west)
                 + b2z (negb (y =? h - 1) && link_alive m (w - 1, y) Links_north_east)) (zrange h) 0.

Definition has_wrap (m : rmachine) : bool :=
  9 * (4 * rm_w m + 4 * rm_h m - 2) <=? 10 * wrap_working m.

(* Links.to_vector; the lookup never fails on a member of Links (lemma link_vec_total) *)
Definition rlink_vec (l : Z) : Z * Z :=
  match links_to_vector l with Some v => v | None => (0, 0) end.

(* ------------------------------------------------------------------------------------------------
   RoutingTree.  A child is (route or None, object) where the object is a RoutingTree or a vertex;
   routes are the integer values of rig.routing_table.Routes (0..5 links, 6 + n core n), vertices are
   integers. *)
Inductive rtree : Type :=
| RNode (c : chip) (kids : list (option Z * rtree))
| RLeaf (v : Z).

Definition root_chip (t : rtree) : option chip :=
  match t with RNode c _ => Some c | RLeaf _ => None end.

Definition root_is (c : chip) (t : rtree) : bool :=
  match t with RNode c' _ => chip_eqb c c' | RLeaf _ => false end.

(* chips of the tree nodes, in the order of RoutingTree.__iter__ (depth first, pre-order) *)
Fixpoint chips (t : rtree) : list chip :=
  match t with
  | RLeaf _ => []
  | RNode c kids => c :: flat_map (fun k => chips (snd k)) kids
  end.

Definition forest_chips (f : list rtree) : list chip := flat_map chips f.

(* lookup[c]: the (first, pre-order) node whose chip is c *)
Fixpoint find_sub (c : chip) (t : rtree) : option rtree :=
  match t with
  | RLeaf _ => None
  | RNode c' kids =>
      if chip_eqb c c' then Some t
      else (fix go (ks : list (option Z * rtree)) : option rtree :=
              match ks with
              | [] => None
              | k :: ks' => match find_sub c (snd k) with Some s => Some s | None => go ks' end
              end) kids
  end.

Fixpoint forest_find (c : chip) (f : list rtree) : option rtree :=
  match f with
  | [] => None
  | t :: f' => match find_sub c t with Some s => Some s | None => forest_find c f' end
  end.

(* lookup[p].children.append(k) *)
Fixpoint attach (p : chip) (k : option Z * rtree) (t : rtree) : rtree :=
  match t with
  | RLeaf v => RLeaf v
  | RNode c kids =>
      let kids' := map (fun rk => (fst rk, attach p k (snd rk))) kids in
      RNode c (if chip_eqb c p then kids' ++ [k] else kids')
  end.

Definition forest_attach (p : chip) (k : option Z * rtree) (f : list rtree) : list rtree :=
  map (attach p k) f.

(* dict insertion: a new key goes to the end, an existing key keeps its place *)
Definition dict_add (c : chip) (keys : list chip) : list chip :=
  if chip_mem c keys then keys else keys ++ [c].

(* ------------------------------------------------------------------------------------------------
   ner_net *)
Definition stream := list Z.
Definition draw (s : stream) : Z * stream :=
  match s with [] => (0, []) | k :: s' => (k, s') end.

Definition rdist (wrap : bool) (w h : Z) (a b : chip) : Z :=
  if wrap then shortest_torus_path_length (to_xyz a) (to_xyz b) w h
  else shortest_mesh_path_length (to_xyz a) (to_xyz b).

(* sorted(destinations, key=distance from the source): stable, ascending *)
Fixpoint insert_asc (k : Z) (c : chip) (l : list (Z * chip)) : list (Z * chip) :=
  match l with
  | [] => [(k, c)]
  | (k', c') :: t => if k <=? k' then (k, c) :: l else (k', c') :: insert_asc k c t
  end.

Definition sort_dests (wrap : bool) (w h : Z) (src : chip) (dests : list chip) : list chip :=
  map snd (fold_right (fun c acc => insert_asc (rdist wrap w h src c) c acc) [] dests).

(* "original approach": the first point of the concentric hexagons around the destination that is a
   route node *)
Definition find_hex (hexes : list chip) (dest : chip) (wrap : bool) (w h : Z) (route : list chip)
  : option chip :=
  find (fun c => chip_mem c route)
       (map (fun o => let x := fst o + fst dest in
                      let y := snd o + snd dest in
                      if wrap then (x mod w, y mod h) else (x, y)) hexes).

(* "alternative approach": the first closest route node within radius *)
Definition find_scan (route : list chip) (dest : chip) (wrap : bool) (w h radius : Z) : option chip :=
  option_map fst
    (fold_left (fun (best : option (chip * Z)) cand =>
                  let d := rdist wrap w h cand dest in
                  if (d <=? radius) && (match best with None => true | Some (_, bd) => d <? bd end)
                  then Some (cand, d) else best) route None).

Definition scripted_randint (k : Z) (lo hi : Z) : Z := lo + k mod (hi - lo + 1).

(* shortest_torus_path(to_xyz(neighbour), to_xyz(destination), w, h): four random() and, when the
   vector admits spirals, one randint *)
Definition torus_vector (nb dest : chip) (w h : Z) (s : stream) : result vec3 * stream :=
  let '(k0, s) := draw s in
  let '(k1, s) := draw s in
  let '(k2, s) := draw s in
  let '(k3, s) := draw s in
  match torus_path_request k0 k1 k2 k3 (to_xyz nb) (to_xyz dest) w h with
  | None => (* no randint call is made; the argument is never applied *)
      (shortest_torus_path k0 k1 k2 k3 (scripted_randint 0) (to_xyz nb) (to_xyz dest) w h, s)
  | Some _ =>
      let '(k4, s) := draw s in
      (shortest_torus_path k0 k1 k2 k3 (scripted_randint k4) (to_xyz nb) (to_xyz dest) w h, s)
  end.

Definition ldf_stream (v : vec3) (start : chip) (w h : Z) (s : stream)
  : result (list (Z * chip)) * stream :=
  let '(k0, s) := draw s in
  let '(k1, s) := draw s in
  let '(k2, s) := draw s in
  (longest_dimension_first k0 k1 k2 v start (Some w) (Some h), s).

(* the backward scan: cut the path after its LAST point that is already a route node *)
Fixpoint truncate (route : list chip) (path : list (Z * chip)) : option (chip * list (Z * chip)) :=
  match path with
  | [] => None
  | (d, c) :: rest =>
      match truncate route rest with
      | Some r => Some r
      | None => if chip_mem c route then Some (c, rest) else None
      end
  end.

(* for direction, (x, y) in ldf: create the node, enter it in the dict, append it to the last node *)
Fixpoint attach_chain (last : chip) (path : list (Z * chip)) (route : list chip) (t : rtree)
  : list chip * rtree :=
  match path with
  | [] => (route, t)
  | (d, c) :: rest =>
      attach_chain c rest (dict_add c route) (attach last (Some d, RNode c []) t)
  end.

Definition ner_dest (src : chip) (w h : Z) (wrap : bool) (radius : Z) (hexes : list chip)
           (dest : chip) (st : list chip * rtree * stream) : result (list chip * rtree * stream) :=
  let '(route, t, s) := st in
  let found :=
      if 3 * Z.of_nat (length hexes) <? Z.of_nat (length route)
      then find_hex hexes dest wrap w h route
      else find_scan route dest wrap w h radius in
  let nb := match found with Some n => n | None => src end in
  let '(rv, s) := if wrap then torus_vector nb dest w h s
                  else (Ok (shortest_mesh_path (to_xyz nb) (to_xyz dest)), s) in
  match rv with
  | Ok v =>
      let '(rp, s) := ldf_stream v nb w h s in
      match rp with
      | Ok path =>
          let '(nb', path') := match truncate route path with
                               | Some r => r
                               | None => (nb, path)
                               end in
          let '(route', t') := attach_chain nb' path' route t in
          Ok (route', t', s)
      | Failed k => Failed k | OtherError => OtherError | OutOfFuel => OutOfFuel
      end
  | Failed k => Failed k | OtherError => OtherError | OutOfFuel => OutOfFuel
  end.

Fixpoint ner_dests (src : chip) (w h : Z) (wrap : bool) (radius : Z) (hexes : list chip)
         (dests : list chip) (st : list chip * rtree * stream) : result (list chip * rtree * stream) :=
  match dests with
  | [] => Ok st
  | d :: ds => bind (ner_dest src w h wrap radius hexes d st)
                    (fun st' => ner_dests src w h wrap radius hexes ds st')
  end.

(* ner_net(source, destinations, width, height, wrap_around, radius) -> (route[source], route);
   [dests] is the iteration order of the `destinations` iterable *)
Definition ner_net (src : chip) (dests : list chip) (w h : Z) (wrap : bool) (radius : Z) (s : stream)
  : result (rtree * list chip) :=
  let hexes := concentric_hexagons radius (0, 0) in
  bind (ner_dests src w h wrap radius hexes (sort_dests wrap w h src dests)
                  ([src], RNode src [], s))
       (fun st => let '(route, t, _) := st in Ok (t, route)).

(* ------------------------------------------------------------------------------------------------
   route_has_dead_links *)
Fixpoint has_dead_links (m : rmachine) (t : rtree) : bool :=
  match t with
  | RLeaf _ => false
  | RNode c kids =>
      existsb (fun k => (match fst k with Some r => negb (link_alive m c r) | None => false end)
                        || has_dead_links m (snd k)) kids
  end.

(* ------------------------------------------------------------------------------------------------
   links_between(a, b, machine) as the list of link numbers in Links order *)
Definition links_between (a b : chip) (m : rmachine) : list Z :=
  filter (fun l => let v := rlink_vec l in
                   ((fst a + fst v) mod rm_w m =? fst b) && ((snd a + snd v) mod rm_h m =? snd b)
                   && link_alive m a l) links_members.

Definition zmem (x : Z) (l : list Z) : bool := existsb (Z.eqb x) l.

(* ------------------------------------------------------------------------------------------------
   copy_and_disconnect_tree.  The result is a forest: the copy of the root first, then the roots of
   the disconnected subtrees in the order in which they were created; `lookup` is the set of chips of
   the forest; broken_links is returned in discovery order. *)
Definition pair_mem (p : chip * chip) (l : list (chip * chip)) : bool :=
  existsb (fun q => chip_eqb (fst p) (fst q) && chip_eqb (snd p) (snd q)) l.

Fixpoint tree_size (t : rtree) : nat :=
  match t with
  | RLeaf _ => 1%nat
  | RNode _ kids => S (fold_right (fun k acc => (tree_size (snd k) + acc)%nat) 0%nat kids)
  end.

Fixpoint copy_loop (fuel : nat) (m : rmachine) (queue : list (option chip * option Z * rtree))
         (forest : list rtree) (broken : list (chip * chip))
  : result (list rtree * list (chip * chip)) :=
  match fuel with
  | O => OutOfFuel
  | S fuel' =>
      match queue with
      | [] => Ok (forest, broken)
      | (np, dir, old) :: q =>
          match old with
          | RLeaf _ => OtherError                        (* a vertex has no .chip *)
          | RNode c kids =>
              if chip_alive m c then
                let q' := q ++ map (fun k => (Some c, fst k, snd k)) kids in
                match np with
                | None => copy_loop fuel' m q' (forest ++ [RNode c []]) broken
                | Some p =>
                    if (match dir with Some d => zmem d (links_between p c m) | None => false end)
                    then copy_loop fuel' m q' (forest_attach p (dir, RNode c []) forest) broken
                    else copy_loop fuel' m q' (forest ++ [RNode c []])
                                   (if pair_mem (p, c) broken then broken else broken ++ [(p, c)])
                end
              else
                match np with
                | None => OtherError                     (* assert: net sourced from a dead chip *)
                | Some p => copy_loop fuel' m (q ++ map (fun k => (Some p, fst k, snd k)) kids)
                                      forest broken
                end
          end
      end
  end.

Definition copy_and_disconnect (root : rtree) (m : rmachine)
  : result (list rtree * list (chip * chip)) :=
  copy_loop (S (tree_size root)) m [(None, None, root)] [] [].

(* ------------------------------------------------------------------------------------------------
   a_star(sink, heuristic_source, sources, machine, wrap_around).  The heap holds pairwise distinct
   tuples (distance, (x, y)), so heappop returns their minimum in tuple order whatever the heap's
   internal layout: the open set is a list and the minimum is removed. *)
Definition key_ltb (a b : Z * chip) : bool :=
  (fst a <? fst b)
  || ((fst a =? fst b)
      && ((fst (snd a) <? fst (snd b))
          || ((fst (snd a) =? fst (snd b)) && (snd (snd a) <? snd (snd b))))).

Fixpoint min_key (best : Z * chip) (l : list (Z * chip)) : Z * chip :=
  match l with
  | [] => best
  | a :: t => min_key (if key_ltb a best then a else best) t
  end.

Fixpoint remove_chip (c : chip) (l : list (Z * chip)) : list (Z * chip) :=
  match l with
  | [] => []
  | a :: t => if chip_eqb c (snd a) then t else a :: remove_chip c t
  end.

Definition visited_t := list (chip * option (Z * chip)).

Definition visited_mem (c : chip) (v : visited_t) : bool := existsb (fun e => chip_eqb c (fst e)) v.

(* for neighbour_link in Links: ... *)
Definition expand (m : rmachine) (heur : chip -> Z) (node : chip) (st : visited_t * list (Z * chip))
  : visited_t * list (Z * chip) :=
  fold_left (fun (st : visited_t * list (Z * chip)) nl =>
               let v := rlink_vec (links_opposite nl) in
               let nb := ((fst node + fst v) mod rm_w m, (snd node + snd v) mod rm_h m) in
               if negb (link_alive m nb nl) then st
               else if visited_mem nb (fst st) then st
               else (fst st ++ [(nb, Some (nl, node))], snd st ++ [(heur nb, nb)]))
            links_members st.

Fixpoint astar_loop (fuel : nat) (m : rmachine) (heur : chip -> Z) (sources : list chip)
         (visited : visited_t) (open : list (Z * chip)) : result (option chip * visited_t) :=
  match fuel with
  | O => OutOfFuel
  | S fuel' =>
      match open with
      | [] => Ok (None, visited)
      | a :: t =>
          let node := snd (min_key a t) in
          let open' := remove_chip node open in
          if chip_mem node sources then Ok (Some node, visited)
          else let '(visited', open'') := expand m heur node (visited, open') in
               astar_loop fuel' m heur sources visited' open''
      end
  end.

(* path = [(visited[sel][0], sel)]; while visited[path[-1][1]][1] != sink: ... *)
Fixpoint astar_path (fuel : nat) (visited : visited_t) (sink cur : chip) : result (list (Z * chip)) :=
  match fuel with
  | O => OutOfFuel
  | S fuel' =>
      match cassoc cur visited with
      | Some (Some (l, prev)) =>
          if chip_eqb prev sink then Ok [(l, cur)]
          else bind (astar_path fuel' visited sink prev) (fun p => Ok ((l, cur) :: p))
      | _ => OtherError                                   (* TypeError / KeyError *)
      end
  end.

Definition a_star (sink hsrc : chip) (sources : list chip) (m : rmachine) (wrap : bool)
  : result (list (Z * chip)) :=
  let heur := fun n => rdist wrap (rm_w m) (rm_h m) n hsrc in
  let fuel := S (S (Z.to_nat (rm_w m * rm_h m))) in
  bind (astar_loop fuel m heur sources [(sink, None)] [(heur sink, sink)])
       (fun r => match fst r with
                 | None => Failed 0                       (* MachineHasDisconnectedSubregion *)
                 | Some sel => astar_path fuel (snd r) sink sel
                 end).

(* ------------------------------------------------------------------------------------------------
   avoid_dead_links *)
Definition kid_is (c : chip) (k : option Z * rtree) : bool := root_is c (snd k).

Fixpoint remove_first_kid (c : chip) (ks : list (option Z * rtree)) : list (option Z * rtree) :=
  match ks with
  | [] => []
  | k :: ks' => if kid_is c k then ks' else k :: remove_first_kid c ks'
  end.

(* for node in lookup[child]: if new_node among node.children: remove it; break.
   None: no node of the tree has it as a child *)
Fixpoint sever (c : chip) (t : rtree) : option rtree :=
  match t with
  | RLeaf _ => None
  | RNode p kids =>
      if existsb (kid_is c) kids then Some (RNode p (remove_first_kid c kids))
      else option_map (RNode p)
             ((fix go (ks : list (option Z * rtree)) : option (list (option Z * rtree)) :=
                 match ks with
                 | [] => None
                 | k :: ks' =>
                     match sever c (snd k) with
                     | Some s' => Some ((fst k, s') :: ks')
                     | None => option_map (cons k) (go ks')
                     end
                 end) kids)
  end.

(* sever c inside the tree of the forest whose root is [child] (lookup[child] is a root of the forest
   until it is reconnected) *)
Fixpoint forest_sever (child c : chip) (f : list rtree) : list rtree :=
  match f with
  | [] => []
  | t :: f' =>
      if root_is child t then match sever c t with Some t' => t' :: f' | None => t :: f' end
      else t :: forest_sever child c f'
  end.

Fixpoint take_root (c : chip) (f : list rtree) : option (rtree * list rtree) :=
  match f with
  | [] => None
  | t :: f' =>
      if root_is c t then Some (t, f')
      else match take_root c f' with Some (r, f'') => Some (r, t :: f'') | None => None end
  end.

(* the same search over every node of `lookup` (the code since fix c75fe85: `for node in
   itervalues(lookup)`): the first tree of the forest in which some node has it as a child *)
Fixpoint forest_sever_any (c : chip) (f : list rtree) : list rtree :=
  match f with
  | [] => []
  | t :: f' => match sever c t with Some t' => t' :: f' | None => t :: forest_sever_any c f' end
  end.

(* [sev child c f]: how the overlapped node c is cut from its parent.  The code as it is now searches all
   nodes; the code as found searched only the nodes still below lookup[child] (kept for the refutation) *)
Fixpoint splice_gen (sev : chip -> chip -> list rtree -> list rtree)
         (child : chip) (child_chips : list chip) (last : chip) (ld : Z)
         (path : list (Z * chip)) (f : list rtree) : result (list rtree) :=
  match path with
  | [] =>
      match take_root child f with
      | Some (ct, f') => Ok (forest_attach last (Some ld, ct) f')
      | None => match forest_find child f with
                | Some ct => Ok (forest_attach last (Some ld, ct) f)   (* shared object *)
                | None => OtherError
                end
      end
  | (d, c) :: rest =>
      if negb (chip_mem c child_chips) then
        if chip_mem c (forest_chips f) then OtherError          (* assert "Cycle created." *)
        else splice_gen sev child child_chips c d rest (forest_attach last (Some ld, RNode c []) f)
      else
        match forest_find c f with
        | None => OtherError                                    (* KeyError *)
        | Some sub =>
            splice_gen sev child child_chips c d rest
                       (forest_attach last (Some ld, sub) (sev child c f))
        end
  end.

Definition sever_now (child c : chip) (f : list rtree) : list rtree := forest_sever_any c f.
Definition sever_orig (child c : chip) (f : list rtree) : list rtree := forest_sever child c f.

Definition diff_chips (a b : list chip) : list chip := filter (fun c => negb (chip_mem c b)) a.

Fixpoint repair_all_gen (sev : chip -> chip -> list rtree -> list rtree)
         (m : rmachine) (wrap : bool) (broken : list (chip * chip)) (f : list rtree)
  : result (list rtree) :=
  match broken with
  | [] => Ok f
  | (parent, child) :: rest =>
      match forest_find child f with
      | None => OtherError                                      (* KeyError *)
      | Some ct =>
          let cc := chips ct in
          bind (a_star child parent (diff_chips (forest_chips f) cc) m wrap) (fun path =>
          match path with
          | [] => OtherError
          | (d0, c0) :: rest_path =>
              bind (splice_gen sev child cc c0 d0 rest_path f)
                   (fun f' => repair_all_gen sev m wrap rest f')
          end)
      end
  end.

(* [order]: the iteration order of the set broken_links (None: discovery order) *)
Definition avoid_dead_links_gen (sev : chip -> chip -> list rtree -> list rtree)
           (root : rtree) (m : rmachine) (wrap : bool)
           (order : option (list (chip * chip))) : result (list rtree) :=
  bind (copy_and_disconnect root m) (fun fb =>
  let '(f, broken) := fb in
  repair_all_gen sev m wrap (match order with Some o => o | None => broken end) f).

Definition splice := splice_gen sever_now.
Definition repair_all := repair_all_gen sever_now.
Definition avoid_dead_links := avoid_dead_links_gen sever_now.
(* the code as found in the snapshot (before c75fe85) *)
Definition avoid_dead_links_orig := avoid_dead_links_gen sever_orig.

(* ------------------------------------------------------------------------------------------------
   route(): one net *)
Definition vertex := Z.

(* the children appended for one sink: its RouteEndpointConstraint route (the last constraint on the
   vertex wins), else Routes.core(c) for every allocated core, else None *)
Fixpoint endpoint_of (v : vertex) (cons : list (vertex * Z)) (acc : option Z) : option Z :=
  match cons with
  | [] => acc
  | (v', r) :: cs => endpoint_of v cs (if v =? v' then Some r else acc)
  end.

Definition sink_routes (v : vertex) (cons : list (vertex * Z)) (allocs : list (vertex * (Z * Z)))
  : result (list (option Z)) :=
  match endpoint_of v cons None with
  | Some r => Ok [Some r]
  | None =>
      match zassoc v allocs with
      | Some (a, b) =>
          let cores := map (fun i => a + i) (zrange (b - a)) in
          if forallb (fun c => (0 <=? c) && (c <=? 17)) cores
          then Ok (map (fun c => Some (6 + c)) cores)
          else OtherError                                       (* ValueError of Routes.core *)
      | None => Ok [None]
      end
  end.

Fixpoint add_sinks (sinks : list vertex) (pl : list (vertex * chip)) (cons : list (vertex * Z))
         (allocs : list (vertex * (Z * Z))) (f : list rtree) : result (list rtree) :=
  match sinks with
  | [] => Ok f
  | v :: vs =>
      match zassoc v pl with
      | None => OtherError
      | Some c =>
          if negb (chip_mem c (forest_chips f)) then OtherError   (* KeyError: lookup[placements[sink]] *)
          else bind (sink_routes v cons allocs) (fun rs =>
               add_sinks vs pl cons allocs
                         (fold_left (fun f r => forest_attach c (r, RLeaf v) f) rs f))
      end
  end.

(* [dests]: iteration order of set(placements[sink] for sink in net.sinks) *)
Definition route_net (m : rmachine) (source : vertex) (sinks : list vertex) (dests : list chip)
           (pl : list (vertex * chip)) (cons : list (vertex * Z)) (allocs : list (vertex * (Z * Z)))
           (radius : Z) (s : stream) (order : option (list (chip * chip))) : result rtree :=
  match zassoc source pl with
  | None => OtherError
  | Some src =>
      let wrap := has_wrap m in
      bind (ner_net src dests (rm_w m) (rm_h m) wrap radius s) (fun tr =>
      bind (if has_dead_links m (fst tr) then avoid_dead_links (fst tr) m wrap order
            else Ok [fst tr]) (fun f =>
      bind (add_sinks sinks pl cons allocs f) (fun f' =>
      match f' with
      | t :: _ => Ok t
      | [] => OtherError
      end)))
  end.
