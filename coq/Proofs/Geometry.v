(* C11 -- proofs about the generated kernels (Generated/GenGeometry.v) and the hand model
   (Model/Geometry.v) against the graph-theoretic statements of Spec/Geometry.v. *)
From Coq Require Import ZArith List Bool Lia.
Require Import Rig.Model.Base Rig.Generated.GenGeometryLinks Rig.Generated.GenGeometry
        Rig.Model.Geometry Rig.Spec.Geometry.
Import ListNotations.
Open Scope Z_scope.

(* ================================================================================================
   Links: numbering, opposites and vectors are mutually consistent *)
Lemma links_members_are_the_six : links_members = map link_num all_links.
Proof. reflexivity. Qed.

Lemma links_to_vector_spec : forall l, links_to_vector (link_num l) = Some (link_vec l).
Proof. destruct l; reflexivity. Qed.

Lemma links_opposite_spec : forall l, links_opposite (link_num l) = link_num (link_opp l).
Proof. destruct l; reflexivity. Qed.

Lemma links_opposite_involutive : forall l, links_opposite (links_opposite (link_num l)) = link_num l.
Proof. destruct l; reflexivity. Qed.

Lemma links_opposite_vector :
  forall l, links_to_vector (links_opposite (link_num l)) = Some (- fst (link_vec l), - snd (link_vec l)).
Proof. destruct l; reflexivity. Qed.

Lemma links_from_to_vector : forall l, links_from_vector (link_vec l) = Some (link_num l).
Proof. destruct l; reflexivity. Qed.

Lemma links_from_vector_only_links :
  forall v n, links_from_vector v = Some n -> exists l, link_num l = n.
Proof.
  intros v n H. unfold links_from_vector in H.
  destruct v as [x y].
  match type of H with link_direction_lookup (?a, ?b) = _ =>
    assert (Ha : -1 <= a <= 1) by
      (destruct (Z.abs x >? 1) eqn:E; [destruct (x >? 0); lia | rewrite Z.gtb_ltb in E; apply Z.ltb_ge in E; lia]);
    assert (Hb : -1 <= b <= 1) by
      (destruct (Z.abs y >? 1) eqn:E; [destruct (y >? 0); lia | rewrite Z.gtb_ltb in E; apply Z.ltb_ge in E; lia]);
    remember a as a' eqn:Ea; remember b as b' eqn:Eb; clear Ea Eb
  end.
  assert (Ca : a' = -1 \/ a' = 0 \/ a' = 1) by lia.
  assert (Cb : b' = -1 \/ b' = 0 \/ b' = 1) by lia.
  destruct Ca as [ -> | [ -> | -> ] ]; destruct Cb as [ -> | [ -> | -> ] ]; vm_compute in H; inversion H; subst;
    first [ now exists East | now exists NorthEast | now exists North
          | now exists West | now exists SouthWest | now exists South ].
Qed.

(* ================================================================================================
   The hexagonal norm and the kernels *)
Definition hexnorm (p : chip) : Z :=
  Z.max (Z.max (fst p) (snd p)) 0 - Z.min (Z.min (fst p) (snd p)) 0.
Definition chip_sub (p q : chip) : chip := (fst p - fst q, snd p - snd q).

Ltac no_if t := lazymatch t with context [if _ then _ else _] => fail | _ => idtac end.
Ltac break_cmp :=
  repeat (match goal with
          | |- context [Z.gtb ?a ?b] => rewrite (Z.gtb_ltb a b)
          | |- context [Z.geb ?a ?b] => rewrite (Z.geb_leb a b)
          | |- context [Z.ltb ?a ?b] => no_if a; no_if b; destruct (Z.ltb_spec a b)
          | |- context [Z.leb ?a ?b] => no_if a; no_if b; destruct (Z.leb_spec a b)
          end; cbv iota).

Lemma mesh_length_norm :
  forall s d, shortest_mesh_path_length s d = hexnorm (chip_sub (to2d d) (to2d s)).
Proof.
  intros [[sx sy] sz] [[dx dy] dz].
  unfold shortest_mesh_path_length, hexnorm, chip_sub, to2d; cbn [fst snd].
  break_cmp; lia.
Qed.

Lemma minimise_to2d : forall v, to2d (minimise_xyz v) = to2d v.
Proof. intros [[x y] z]. unfold minimise_xyz, to2d. f_equal; lia. Qed.

Lemma minimise_hops : forall v, hops (minimise_xyz v) = hexnorm (to2d v).
Proof.
  intros [[x y] z]. unfold minimise_xyz, hops, hexnorm, to2d; cbn [fst snd]. lia.
Qed.

(* ================================================================================================
   Walks on the mesh *)
Lemma mesh_walk_app : forall l1 l2 p, mesh_walk p (l1 ++ l2) = mesh_walk (mesh_walk p l1) l2.
Proof. intros. unfold mesh_walk. apply fold_left_app. Qed.

Lemma len_app : forall l1 l2, len (l1 ++ l2) = len l1 + len l2.
Proof. intros. unfold len. rewrite app_length. lia. Qed.

Lemma mesh_walk_repeat :
  forall l n p, mesh_walk p (repeat l n) =
                (fst p + Z.of_nat n * fst (link_vec l), snd p + Z.of_nat n * snd (link_vec l)).
Proof.
  intros l n. induction n as [|n IH]; intros [x y].
  - cbn. f_equal; lia.
  - change (repeat l (S n)) with (l :: repeat l n).
    change (mesh_walk (x, y) (l :: repeat l n)) with (mesh_walk (mesh_step (x, y) l) (repeat l n)).
    rewrite IH. unfold mesh_step; cbn [fst snd]. f_equal; lia.
Qed.

Lemma len_repeat : forall l n, len (repeat l n) = Z.of_nat n.
Proof. intros. unfold len. now rewrite repeat_length. Qed.

(* c hops along one axis: the link `pos` if c >= 0, `neg` otherwise *)
Definition axis_walk (pos neg : hexlink) (c : Z) : list hexlink :=
  if c <? 0 then repeat neg (Z.to_nat (- c)) else repeat pos (Z.to_nat c).

Lemma axis_walk_len : forall pos neg c, len (axis_walk pos neg c) = Z.abs c.
Proof. intros. unfold axis_walk. destruct (Z.ltb_spec c 0); rewrite len_repeat; lia. Qed.

Lemma axis_walk_end :
  forall pos neg c p,
    link_vec neg = (- fst (link_vec pos), - snd (link_vec pos)) ->
    mesh_walk p (axis_walk pos neg c) = (fst p + c * fst (link_vec pos), snd p + c * snd (link_vec pos)).
Proof.
  intros pos neg c p Hn. unfold axis_walk.
  destruct (Z.ltb_spec c 0); rewrite mesh_walk_repeat, Z2Nat.id by lia.
  - rewrite Hn; cbn [fst snd]. f_equal; ring.
  - reflexivity.
Qed.

(* a three-axis vector is a walk of [hops v] links to the chip it denotes *)
Definition vector_walk (v : Z * Z * Z) : list hexlink :=
  let '(x, y, z) := v in
  axis_walk East West x ++ axis_walk North South y ++ axis_walk SouthWest NorthEast z.

Lemma vector_walk_len : forall v, len (vector_walk v) = hops v.
Proof. intros [[x y] z]. unfold vector_walk, hops. rewrite !len_app, !axis_walk_len. lia. Qed.

Lemma vector_walk_end : forall v p, mesh_walk p (vector_walk v) = chip_add p (to2d v).
Proof.
  intros [[x y] z] [px py]. unfold vector_walk.
  rewrite !mesh_walk_app, !axis_walk_end by reflexivity.
  unfold chip_add, to2d; cbn [fst snd link_vec]. f_equal; lia.
Qed.

(* a step changes the norm of the displacement from a fixed chip by at most one *)
Lemma step_norm :
  forall a p l, hexnorm (chip_sub (mesh_step p l) a) <= hexnorm (chip_sub p a) + 1.
Proof.
  intros [ax ay] [px py] l. unfold hexnorm, chip_sub, mesh_step; cbn [fst snd].
  destruct l; cbn [link_vec fst snd]; lia.
Qed.

Lemma walk_norm :
  forall a ls p, hexnorm (chip_sub (mesh_walk p ls) a) <= hexnorm (chip_sub p a) + len ls.
Proof.
  intros a ls. induction ls as [|l ls IH]; intros p.
  - cbn. unfold len; cbn. lia.
  - change (mesh_walk p (l :: ls)) with (mesh_walk (mesh_step p l) ls).
    specialize (IH (mesh_step p l)). pose proof (step_norm a p l).
    unfold len in *. cbn [length]. lia.
Qed.

Lemma hexnorm_zero : forall a, hexnorm (chip_sub a a) = 0.
Proof. intros [x y]. unfold hexnorm, chip_sub; cbn [fst snd]. lia. Qed.

(* the graph distance on the mesh is the hexagonal norm of the displacement *)
Lemma mesh_distance_norm : forall a b, is_mesh_distance a b (hexnorm (chip_sub b a)).
Proof.
  intros a b. split.
  - exists (vector_walk (minimise_xyz (fst (chip_sub b a), snd (chip_sub b a), 0))).
    rewrite vector_walk_end, vector_walk_len, minimise_hops, minimise_to2d.
    destruct a as [ax ay], b as [bx by_]. unfold chip_add, chip_sub, to2d, hexnorm; cbn [fst snd].
    split; [f_equal; lia | f_equal; f_equal; lia].
  - intros ls H. pose proof (walk_norm a ls a) as W. rewrite H, hexnorm_zero in W. lia.
Qed.

Lemma mesh_length_is_distance :
  forall s d, is_mesh_distance (to2d s) (to2d d) (shortest_mesh_path_length s d).
Proof. intros. rewrite mesh_length_norm. apply mesh_distance_norm. Qed.

Lemma mesh_path_vector :
  forall s d,
    hops (shortest_mesh_path s d) = shortest_mesh_path_length s d /\
    chip_add (to2d s) (to2d (shortest_mesh_path s d)) = to2d d /\
    mesh_walk (to2d s) (vector_walk (shortest_mesh_path s d)) = to2d d /\
    len (vector_walk (shortest_mesh_path s d)) = shortest_mesh_path_length s d.
Proof.
  intros s d.
  assert (H1 : hops (shortest_mesh_path s d) = shortest_mesh_path_length s d).
  { rewrite mesh_length_norm. destruct s as [[sx sy] sz], d as [[dx dy] dz].
    unfold shortest_mesh_path. rewrite minimise_hops. unfold to2d, chip_sub; cbn [fst snd].
    f_equal. f_equal; lia. }
  assert (H2 : chip_add (to2d s) (to2d (shortest_mesh_path s d)) = to2d d).
  { destruct s as [[sx sy] sz], d as [[dx dy] dz].
    unfold shortest_mesh_path. rewrite minimise_to2d. unfold to2d, chip_add; cbn [fst snd].
    f_equal; lia. }
  repeat split; auto.
  - now rewrite vector_walk_end.
  - now rewrite vector_walk_len.
Qed.

(* all three-axis representations of the same two chips give the same length *)
Lemma mesh_length_representation :
  forall s d s' d', to2d s = to2d s' -> to2d d = to2d d' ->
                    shortest_mesh_path_length s d = shortest_mesh_path_length s' d'.
Proof. intros. rewrite !mesh_length_norm. congruence. Qed.

(* ================================================================================================
   Walks on the torus *)
Lemma wrap_step :
  forall w h p l, torus_step w h (wrap w h p) l = wrap w h (mesh_step p l).
Proof.
  intros. unfold torus_step, wrap, mesh_step; cbn [fst snd].
  f_equal; apply Zplus_mod_idemp_l.
Qed.

Lemma torus_walk_wrap :
  forall w h ls p, torus_walk w h (wrap w h p) ls = wrap w h (mesh_walk p ls).
Proof.
  intros w h ls. induction ls as [|l ls IH]; intros p.
  - reflexivity.
  - change (torus_walk w h (wrap w h p) (l :: ls))
      with (torus_walk w h (torus_step w h (wrap w h p) l) ls).
    rewrite wrap_step, IH. reflexivity.
Qed.

(* the code's formula: the least of the four wrap candidates *)
Definition tlen (w h x y : Z) : Z :=
  Z.min (Z.min (Z.min (Z.max x y) (w - x + y)) (x + h - y)) (Z.max (w - x) (h - y)).

Lemma torus_length_tlen :
  forall s d w h,
    shortest_torus_path_length s d w h =
    tlen w h (fst (torus_delta s d w h)) (snd (torus_delta s d w h)).
Proof.
  intros [[sx sy] sz] [[dx dy] dz] w h.
  unfold shortest_torus_path_length, torus_delta, tlen; cbn [fst snd].
  replace (dx - sx - (dz - sz)) with (dx - dz - (sx - sz)) by lia.
  replace (dy - sy - (dz - sz)) with (dy - dz - (sy - sz)) by lia.
  generalize ((dx - dz - (sx - sz)) mod w) as x. generalize ((dy - dz - (sy - sz)) mod h) as y.
  intros y x. break_cmp; lia.
Qed.

Lemma torus_delta_to2d :
  forall s d w h,
    torus_delta s d w h =
    ((fst (to2d d) - fst (to2d s)) mod w, (snd (to2d d) - snd (to2d s)) mod h).
Proof.
  intros [[sx sy] sz] [[dx dy] dz] w h. unfold torus_delta, to2d; cbn [fst snd].
  f_equal; f_equal; lia.
Qed.

Lemma multiple_cases :
  forall i w, 1 <= w -> i * w = 0 \/ w <= i * w \/ i * w = - w \/ i * w <= - 2 * w.
Proof. intros i w Hw. assert (i = 0 \/ 1 <= i \/ i = -1 \/ i <= -2) as [->|[H|[->|H]]] by lia; nia. Qed.

(* no lattice translate of the displacement is shorter than the least of the four candidates *)
Lemma tlen_lower :
  forall w h x y i j, 0 <= x < w -> 0 <= y < h ->
                      tlen w h x y <= hexnorm (x + i * w, y + j * h).
Proof.
  intros w h x y i j Hx Hy.
  pose proof (multiple_cases i w ltac:(lia)) as Hi.
  pose proof (multiple_cases j h ltac:(lia)) as Hj.
  unfold tlen, hexnorm; cbn [fst snd].
  generalize dependent (i * w). generalize dependent (j * h). intros b Hb a Ha.
  destruct Ha as [Ha|[Ha|[Ha|Ha]]]; destruct Hb as [Hb|[Hb|[Hb|Hb]]]; lia.
Qed.

(* and the least candidate is one of them *)
Lemma tlen_achieved :
  forall w h x y, 0 <= x < w -> 0 <= y < h ->
                  exists i j, tlen w h x y = hexnorm (x + i * w, y + j * h).
Proof.
  intros w h x y Hx Hy.
  assert (C : tlen w h x y = hexnorm (x + 0 * w, y + 0 * h) \/
              tlen w h x y = hexnorm (x + (-1) * w, y + 0 * h) \/
              tlen w h x y = hexnorm (x + 0 * w, y + (-1) * h) \/
              tlen w h x y = hexnorm (x + (-1) * w, y + (-1) * h))
    by (unfold tlen, hexnorm; cbn [fst snd]; lia).
  destruct C as [C|[C|[C|C]]]; eauto.
Qed.

Lemma mod_eq_translate :
  forall w a b e, 1 <= w -> e mod w = b mod w -> e - a = (b - a) mod w + ((e - a) / w) * w.
Proof.
  intros w a b e Hw H.
  assert (E : (e - a) mod w = (b - a) mod w) by (rewrite Zminus_mod, H, <- Zminus_mod; reflexivity).
  rewrite <- E. pose proof (Z.div_mod (e - a) w ltac:(lia)). lia.
Qed.

Lemma torus_length_is_distance :
  forall s d w h, 1 <= w -> 1 <= h ->
    is_torus_distance w h (wrap w h (to2d s)) (wrap w h (to2d d)) (shortest_torus_path_length s d w h).
Proof.
  intros s d w h Hw Hh.
  rewrite torus_length_tlen, torus_delta_to2d; cbn [fst snd].
  destruct (to2d s) as [ax ay] eqn:Ea. destruct (to2d d) as [bx by_] eqn:Eb. cbn [fst snd].
  set (x := (bx - ax) mod w). set (y := (by_ - ay) mod h).
  assert (Hx : 0 <= x < w) by (apply Z.mod_pos_bound; lia).
  assert (Hy : 0 <= y < h) by (apply Z.mod_pos_bound; lia).
  split.
  - destruct (tlen_achieved w h x y Hx Hy) as (i & j & Hij).
    exists (vector_walk (minimise_xyz (x + i * w, y + j * h, 0))).
    rewrite torus_walk_wrap, vector_walk_end, vector_walk_len, minimise_hops, minimise_to2d.
    split.
    + unfold wrap, chip_add, to2d; cbn [fst snd]. rewrite !Z.sub_0_r.
      rewrite !Z.add_assoc, !Z_mod_plus_full. unfold x, y.
      rewrite !Zplus_mod_idemp_r. f_equal; f_equal; lia.
    + rewrite Hij. unfold to2d. now rewrite !Z.sub_0_r.
  - intros ls H. rewrite torus_walk_wrap in H.
    destruct (mesh_walk (ax, ay) ls) as [ex ey] eqn:Ee.
    unfold wrap in H; cbn [fst snd] in H. injection H as H1 H2.
    pose proof (walk_norm (ax, ay) ls (ax, ay)) as W. rewrite Ee, hexnorm_zero in W.
    unfold chip_sub in W; cbn [fst snd] in W.
    rewrite (mod_eq_translate w ax bx ex Hw H1), (mod_eq_translate h ay by_ ey Hh H2) in W.
    pose proof (tlen_lower w h x y ((ex - ax) / w) ((ey - ay) / h) Hx Hy) as L.
    fold x y in W. lia.
Qed.
