(* Simulated annealing placer: the initial placement (sa/algorithm.py up to the kernel) is feasible; one
   swap attempt of the Python kernel (sa/python_kernel.py:_step) preserves the state invariant [SAInv]
   (free-resource bookkeeping, location constraints, l2v consistency); the placement of ANY state satisfying
   the invariant expands to a feasible placement of the original problem.  The float-valued temperature
   schedule is not modelled: the theorems hold for every sequence of draws / every number of steps. *)
From Coq Require Import ZArith List Bool Lia.
Require Import Rig.Model.Base Rig.Model.Place Rig.Spec.Place Rig.Proofs.Place Rig.Proofs.PlaceCore
        Rig.Proofs.PlaceMerge Rig.Proofs.PlaceSeq Rig.Proofs.PlaceComplete.
Import ListNotations.
Open Scope Z_scope.

(* ---------------------------------------------------------------------------------------------- *)
(* The invariants depend on a placement only through its lookup function                            *)
(* ---------------------------------------------------------------------------------------------- *)
Lemma load_ext : forall (vr : vresources) pl pl' c r,
  (forall u, zassoc u pl = zassoc u pl') -> load vr pl c r = load vr pl' c r.
Proof.
  intros vr pl pl' c r H. rewrite !load_sumf. apply sumf_ext. intros [u d] _. cbn [fst snd].
  unfold on_chip. rewrite (H u). reflexivity.
Qed.

Lemma Inv_pl_ext : forall vr m0 cs m pl pl',
  (forall u, zassoc u pl = zassoc u pl') -> Inv vr m0 cs m pl -> Inv vr m0 cs m pl'.
Proof.
  intros vr m0 cs m pl pl' H [H1 H2 H3 H4 H5]. constructor; try assumption.
  intros c r Hl Hr. rewrite <- (load_ext vr pl pl' c r H). apply H3; assumption.
Qed.

(* initial_placements.update(fixed_vertices) *)
Definition over (fixed pl : placement) : placement :=
  fold_left (fun p vc => pl_set (fst vc) (snd vc) p) fixed pl.

Lemma over_spec : forall fixed, NoDup (map fst fixed) -> forall pl u,
  zassoc u (over fixed pl) = match zassoc u fixed with Some c => Some c | None => zassoc u pl end.
Proof.
  unfold over. induction fixed as [|[v c] t IH]; intros Hnd pl u; cbn [fold_left zassoc fst snd].
  - reflexivity.
  - cbn [map fst] in Hnd. inversion Hnd as [|? ? Hni Hnd']. subst.
    rewrite (IH Hnd'). unfold pl_set. rewrite zassoc_zupdate. destruct (u =? v) eqn:E.
    + apply Z.eqb_eq in E. subst u.
      assert (Hz : zassoc v t = None) by (apply zassoc_None; exact Hni). rewrite Hz. reflexivity.
    + reflexivity.
Qed.

Lemma over_NoDup : forall fixed pl, NoDup (map fst pl) -> NoDup (map fst (over fixed pl)).
Proof.
  unfold over. induction fixed as [|[v c] t IH]; intros pl H; cbn [fold_left]; [exact H|].
  apply IH. apply zupdate_NoDup. exact H.
Qed.

(* ---------------------------------------------------------------------------------------------- *)
(* shuffle is a permutation (as far as membership goes)                                             *)
(* ---------------------------------------------------------------------------------------------- *)
Lemma take_nth_spec : forall {A} n (l : list A) x l', take_nth n l = Some (x, l') ->
  (forall y, In y l <-> y = x \/ In y l') /\ length l = S (length l').
Proof.
  intros A n l. revert n. induction l as [|h t IH]; intros n x l' H; [destruct n; discriminate|].
  destruct n as [|n]; cbn [take_nth] in H.
  - inversion H. subst. split; [intros y; cbn [In]; split; intros [E | E]; auto | reflexivity].
  - destruct (take_nth n t) as [[x1 t1]|] eqn:E; [|discriminate]. inversion H. subst.
    destruct (IH n x t1 E) as [G1 G2]. split.
    + intros y. cbn [In]. rewrite G1. tauto.
    + cbn [length]. rewrite G2. reflexivity.
Qed.

Lemma take_nth_some : forall {A} n (l : list A), (n < length l)%nat -> exists x l', take_nth n l = Some (x, l').
Proof.
  intros A n l. revert n. induction l as [|h t IH]; intros n H; cbn [length] in H; [lia|].
  destruct n as [|n]; cbn [take_nth]; [eexists; eexists; reflexivity|].
  destruct (IH n) as [x [l' E]]; [lia|]. rewrite E. eexists; eexists; reflexivity.
Qed.

Lemma shuffle_In : forall {A} fuel picks (l : list A), (length l <= fuel)%nat ->
  forall x, In x (shuffle fuel picks l) <-> In x l.
Proof.
  intros A fuel. induction fuel as [|fuel IH]; intros picks l Hlen x.
  - destruct l; [|cbn [length] in Hlen; lia]. reflexivity.
  - cbn [shuffle]. destruct l as [|h t] eqn:El; [reflexivity|]. rewrite <- El in *.
    set (n := match picks with [] => O | p :: _ => Nat.modulo p (length l) end).
    assert (Hn : (n < length l)%nat).
    { unfold n. destruct picks; [subst l; cbn [length]; lia|]. apply Nat.mod_upper_bound. subst l. cbn [length]. lia. }
    destruct (take_nth_some n l Hn) as [y [l' E]]. rewrite E.
    destruct (take_nth_spec n l y l' E) as [G1 G2]. cbn [In]. rewrite (IH (tl picks) l') by lia.
    rewrite G1. split; intros [H | H]; auto.
Qed.

(* ---------------------------------------------------------------------------------------------- *)
(* _initial_placement                                                                               *)
(* ---------------------------------------------------------------------------------------------- *)
Lemma initial_vertex_some : forall m d locs c r' locs',
  initial_vertex m d locs = Ok (c, r', locs') ->
  In c locs /\ live m c = true /\ r' = subtract_resources (chip_res m c) d /\ overallocated r' = false
  /\ (forall x, In x locs' -> In x locs).
Proof.
  intros m d locs. induction locs as [|x t IH]; intros c r' locs' H; cbn [initial_vertex] in H; [discriminate|].
  destruct (try_chip m d x) as [o| | |] eqn:Et; cbn [bind] in H; try discriminate. destruct o as [r1|].
  - inversion H. subst. apply try_chip_some in Et. destruct Et as [T1 [T2 T3]].
    split; [left; reflexivity|]. split; [exact T1|]. split; [exact T2|]. split; [exact T3|]. intros y Hy. exact Hy.
  - destruct (IH _ _ _ H) as [G1 [G2 [G3 [G4 G5]]]].
    split; [right; exact G1|]. split; [exact G2|]. split; [exact G3|]. split; [exact G4|].
    intros y Hy. right. apply G5. exact Hy.
Qed.

Lemma PlInv_over : forall vr m0 fixed pl,
  PlInv vr m0 fixed -> PlInv vr m0 pl -> PlInv vr m0 (over fixed pl).
Proof.
  intros vr m0 fixed pl [F1 F2 F3] [P1 P2 P3]. constructor.
  - apply over_NoDup. exact P1.
  - intros v c Hz. rewrite (over_spec fixed F1) in Hz. destruct (zassoc v fixed) as [c'|] eqn:E.
    + inversion Hz. subst. apply (F2 v c E).
    + apply (P2 v c Hz).
  - intros v Hv. apply zassoc_key_Some in Hv. destruct Hv as [c Hc]. rewrite (over_spec fixed F1) in Hc.
    destruct (zassoc v fixed) as [c'|] eqn:E.
    + apply F3. apply zassoc_Some_key in E. exact E.
    + apply P3. apply zassoc_Some_key in Hc. exact Hc.
Qed.

Lemma initial_loop_inv : forall vr m0 cs fixed vs m pl locs m' pl',
  wf_core vr m0 -> PlInv vr m0 fixed ->
  Inv vr m0 cs m (over fixed pl) -> PlInv vr m0 pl ->
  (forall c, In c locs -> live m0 c = true) ->
  (forall v, In v vs -> ~ In v (map fst fixed)) ->
  initial_loop vr vs m pl locs = Ok (m', pl') ->
  Inv vr m0 cs m' (over fixed pl') /\ PlInv vr m0 pl'
  /\ (forall v, In v vs -> In v (map fst pl')) /\ (forall v, In v (map fst pl) -> In v (map fst pl')).
Proof.
  intros vr m0 cs fixed vs. induction vs as [|v vs IH]; intros m pl locs m' pl' Hwf Hfix Hinv Hpl Hlocs Hvs H;
    cbn [initial_loop] in H.
  - inversion H. subst. split; [exact Hinv|]. split; [exact Hpl|]. split; [intros v []|intros v Hv; exact Hv].
  - destruct (zassoc v vr) as [d|] eqn:Ev; [|discriminate].
    destruct (initial_vertex m d locs) as [[[c r'] locs']| | |] eqn:Ei; cbn [bind] in H; try discriminate.
    apply initial_vertex_some in Ei. destruct Ei as [I1 [I2 [I3 [I4 I5]]]].
    destruct (mset m c r') as [m1|] eqn:Es; [|discriminate]. subst r'.
    assert (Hl0 : live m0 c = true) by (apply Hlocs; exact I1).
    assert (Hvk : In v (map fst vr)) by (apply zassoc_Some_key in Ev; exact Ev).
    assert (Hvf : zassoc v fixed = None) by (apply zassoc_None; apply Hvs; left; reflexivity).
    assert (Hi1 : Inv vr m0 cs m1 (over fixed (pl_set v c pl))).
    { apply (Inv_pl_ext vr m0 cs m1 (pl_set v c (over fixed pl))).
      - intros u. rewrite (over_spec fixed (pi_nodup _ _ _ Hfix)). unfold pl_set. rewrite !zassoc_zupdate.
        rewrite (over_spec fixed (pi_nodup _ _ _ Hfix)).
        destruct (u =? v) eqn:E; [|reflexivity]. apply Z.eqb_eq in E. subst u. rewrite Hvf. reflexivity.
      - eapply Inv_place; eassumption. }
    assert (Hp1 : PlInv vr m0 (pl_set v c pl)) by (apply PlInv_set; assumption).
    destruct (IH m1 (pl_set v c pl) locs' m' pl' Hwf Hfix Hi1 Hp1) as [G1 [G2 [G3 G4]]].
    + intros x Hx. apply Hlocs. apply I5. exact Hx.
    + intros u Hu. apply Hvs. right. exact Hu.
    + exact H.
    + split; [exact G1|]. split; [exact G2|]. split.
      * intros u [Hu | Hu]; [|apply G3; exact Hu]. subst u. apply G4. unfold pl_set. apply zupdate_In_keys. left. reflexivity.
      * intros u Hu. apply G4. unfold pl_set. apply zupdate_In_keys. right. exact Hu.
Qed.

(* ---------------------------------------------------------------------------------------------- *)
(* The state invariant of the annealer                                                              *)
(* ---------------------------------------------------------------------------------------------- *)


(* l2v as built by PythonKernel.__init__ lists, per chip, vertices placed on it, each once *)
Lemma init_l2v_spec : forall (pl : placement) (base : l2v),
  NoDup (map fst pl) ->
  (forall c vs, cassoc c base = Some vs -> vs = []) ->
  forall c vs, cassoc c (fold_left (fun l vc => match cassoc (snd vc) l with
                                                  | Some vs => cupdate (snd vc) (vs ++ [fst vc]) l
                                                  | None => l end) pl base) = Some vs ->
  NoDup vs /\ forall v, In v vs -> In (v, c) pl.
Proof.
  intros pl.
  assert (Hgen : forall (done : placement) (base : l2v),
            NoDup (map fst (done ++ pl)) ->
            (forall c vs, cassoc c base = Some vs -> NoDup vs /\ forall v, In v vs -> In (v, c) done) ->
            forall c vs, cassoc c (fold_left (fun l vc => match cassoc (snd vc) l with
                                                            | Some vs => cupdate (snd vc) (vs ++ [fst vc]) l
                                                            | None => l end) pl base) = Some vs ->
            NoDup vs /\ forall v, In v vs -> In (v, c) (done ++ pl)).
  { induction pl as [|[v0 c0] t IH]; intros done base Hnd Hb c vs H; cbn [fold_left] in H.
    - rewrite app_nil_r. apply (Hb c vs H).
    - cbn [fst snd] in H.
      assert (Happ : done ++ (v0, c0) :: t = (done ++ [(v0, c0)]) ++ t) by (rewrite <- app_assoc; reflexivity).
      rewrite Happ in *. refine (IH (done ++ [(v0, c0)]) _ Hnd _ c vs H).
      intros c1 vs1 H1. destruct (cassoc c0 base) as [vs0|] eqn:E0.
      + rewrite cassoc_cupdate in H1. destruct (chip_eqb c1 c0) eqn:Ec.
        * apply chip_eqb_eq in Ec. subst c1. inversion H1. subst vs1. destruct (Hb c0 vs0 E0) as [B1 B2]. split.
          -- apply NoDup_snoc; [exact B1|]. intros Hin. apply B2 in Hin.
             rewrite !map_app in Hnd. cbn [map fst] in Hnd. rewrite <- app_assoc in Hnd. cbn [app] in Hnd.
             apply NoDup_remove_2 in Hnd. apply Hnd.
             rewrite in_app_iff. left. apply in_map_iff. exists (v0, c0). split; [reflexivity | exact Hin].
          -- intros u Hu. apply in_app_iff in Hu. apply in_app_iff. destruct Hu as [Hu | [Hu | []]].
             ++ left. apply B2. exact Hu.
             ++ subst u. right. left. reflexivity.
        * destruct (Hb c1 vs1 H1) as [B1 B2]. split; [exact B1|]. intros u Hu. apply in_app_iff. left. apply B2. exact Hu.
      + destruct (Hb c1 vs1 H1) as [B1 B2]. split; [exact B1|]. intros u Hu. apply in_app_iff. left. apply B2. exact Hu. }
  intros base Hnd Hb c vs H. refine (Hgen [] base Hnd _ c vs H).
  intros c1 vs1 H1. rewrite (Hb c1 vs1 H1). split; [constructor | intros v []].
Qed.

Lemma cassoc_empty_lists : forall (L : list chip) c vs,
  cassoc c (map (fun c0 : chip => (c0, @nil vertex)) L) = Some vs -> vs = [].
Proof.
  induction L as [|h t IH]; intros c vs H; cbn [map cassoc] in H; [discriminate|].
  destruct (chip_eqb c h); [inversion H; reflexivity | apply (IH c vs H)].
Qed.

Lemma SAInv_feasible : forall vr m cs fixed s,
  wf_core vr m -> (forall k v, In k cs -> In v (constr_vertices k) -> In v (map fst vr)) ->
  Forall degenerate cs -> SAInv vr m cs fixed s -> Feasible vr m cs (st_pl s).
Proof.
  intros vr m cs fixed s Hwc Hcv Hdeg [S1 S2 S3 S4 S5 S6 S7].
  apply (feasible_of_inv vr m cs (st_m s) (st_pl s) Hwc S1 S2 S3 S4 Hcv Hdeg).
Qed.

Lemma sa_prepare_inv : forall vr m cs lp vp s0,
  wf_problem vr m cs -> consistent cs -> sa_prepare vr m cs lp vp = Ok s0 ->
  exists cs1, apply_same_chip vr cs = Ok (ss_vr s0, cs1, ss_subs s0)
    /\ SAInv (ss_vr s0) m cs1 (map fst (ss_fixed s0)) (sa_init_state s0).
Proof.
  intros vr m cs lp vp s0 W Hc H. unfold sa_prepare in H.
  destruct (apply_same_chip vr cs) as [[[vr1 cs1] subs]| | |] eqn:Ea; cbn [bind] in H; try discriminate.
  destruct (merged_problem vr m cs vr1 cs1 subs W Hc Ea) as [Hp [Hdeg [_ Hfin]]].
  destruct (handle_cs vr1 cs1 m []) as [[m1 fixed]| | |] eqn:Eh; cbn [bind] in H; try discriminate.
  set (movable := filter (fun v => negb (pl_mem v fixed)) (map fst vr1)) in *.
  set (locs := shuffle (length (raster m1)) lp (raster m1)) in *.
  set (vs := shuffle (length movable) vp movable) in *.
  destruct locs as [|l0 lt] eqn:Elocs; [discriminate|]. rewrite <- Elocs in *.
  destruct (initial_loop vr1 vs m1 [] locs) as [[m2 pl]| | |] eqn:Ei; cbn [bind] in H; try discriminate.
  inversion H. subst s0. clear H. cbn [ss_vr ss_subs ss_fixed]. exists cs1. split; [reflexivity|].
  pose proof (pwf_core _ _ _ Hp) as Hwc.
  destruct (handle_cs_inv vr1 m cs1 [] m [] m1 fixed Hwc (Inv_init vr1 m (wf_problem_machine _ _ _ W))
              (PlInv_init vr1 m) Eh) as [Hinv [Hplf [_ Hlocs]]].
  cbn [app] in Hinv. destruct (Hlocs (consistent_agree _ (pwf_consistent _ _ _ Hp))) as [_ Hloc0].
  assert (Hfnd : NoDup (map fst fixed)) by exact (pi_nodup _ _ _ Hplf).
  assert (Hmov : forall v, In v movable <-> In v (map fst vr1) /\ ~ In v (map fst fixed)).
  { intros v. unfold movable. rewrite filter_In, negb_true_iff. split.
    - intros [H1 H2]. split; [exact H1|]. intros Hin. apply pl_mem_true in Hin. congruence.
    - intros [H1 H2]. split; [exact H1|]. destruct (pl_mem v fixed) eqn:E; [|reflexivity]. apply pl_mem_true in E. contradiction. }
  destruct (initial_loop_inv vr1 m cs1 fixed vs m1 [] locs m2 pl Hwc Hplf) as [Hinv2 [Hpl2 [Hplaced _]]].
  - apply (Inv_pl_ext vr1 m cs1 m1 fixed); [|exact Hinv].
    intros u. rewrite (over_spec fixed Hfnd). destruct (zassoc u fixed); reflexivity.
  - apply PlInv_init.
  - intros c Hin. unfold locs in Hin. apply shuffle_In in Hin; [|lia]. apply raster_In in Hin.
    rewrite <- (live_frame m m1 c (inv_frame _ _ _ _ _ Hinv)). exact Hin.
  - intros v Hin. unfold vs in Hin. apply shuffle_In in Hin; [|lia]. apply Hmov in Hin. tauto.
  - exact Ei.
  - assert (Hov : forall u, zassoc u (over fixed pl) = match zassoc u fixed with Some c => Some c | None => zassoc u pl end)
      by (intros u; apply (over_spec fixed Hfnd)).
    assert (Hfinal_nd : NoDup (map fst (over fixed pl))) by (apply over_NoDup; exact (pi_nodup _ _ _ Hpl2)).
    constructor; unfold sa_init_state; cbn [st_pl st_m st_l2v ss_placement ss_machine];
      fold (over fixed pl).
    + exact Hinv2.
    + apply PlInv_over; assumption.
    + intros v Hv. destruct (zassoc v fixed) as [c|] eqn:E.
      * apply (zassoc_Some_key v _ c). rewrite Hov, E. reflexivity.
      * assert (Hvm : In v vs).
        { unfold vs. apply shuffle_In; [lia|]. apply Hmov. split; [exact Hv | apply zassoc_None; exact E]. }
        apply Hplaced in Hvm. apply zassoc_key_Some in Hvm. destruct Hvm as [c Hc'].
        apply (zassoc_Some_key v _ c). rewrite Hov, E. exact Hc'.
    + intros v c Hin. rewrite Hov, (Hloc0 v c Hin). reflexivity.
    + intros v c Hin. apply (zassoc_Some_key v fixed c). apply Hloc0. exact Hin.
    + intros c ws v Hc' Hv. unfold init_l2v in Hc'.
      destruct (init_l2v_spec (over fixed pl) _ Hfinal_nd (cassoc_empty_lists (raster m2)) c ws Hc') as [_ Hin].
      apply zassoc_NoDup_In; [exact Hfinal_nd | apply Hin; exact Hv].
    + intros c ws Hc'. unfold init_l2v in Hc'.
      destruct (init_l2v_spec (over fixed pl) _ Hfinal_nd (cassoc_empty_lists (raster m2)) c ws Hc') as [Hn _]. exact Hn.
Qed.

(* the result of place() when no annealing is done (effort 0, no nets, one chip, ...) *)
Theorem sa_trivial_sound : forall vr m cs lp vp pl,
  wf_problem vr m cs -> consistent cs ->
  sa_place_trivial vr m cs lp vp = Ok pl -> Feasible vr m cs pl.
Proof.
  intros vr m cs lp vp pl W Hc H. unfold sa_place_trivial in H.
  destruct (length vr =? 0)%nat eqn:Elen.
  - apply Nat.eqb_eq in Elen. destruct vr; [|discriminate]. inversion H. subst pl.
    apply feasible_empty. intros k v Hk Hv. apply (wf_constr_vertices _ _ _ W k v Hk Hv).
  - destruct (sa_prepare vr m cs lp vp) as [s0| | |] eqn:Ep; cbn [bind] in H; try discriminate.
    destruct (sa_prepare_inv vr m cs lp vp s0 W Hc Ep) as [cs1 [Ea Hsa]].
    destruct (merged_problem vr m cs (ss_vr s0) cs1 (ss_subs s0) W Hc Ea) as [Hp [Hdeg [_ Hfin]]].
    pose proof (SAInv_feasible _ _ _ _ _ (pwf_core _ _ _ Hp) (pwf_cv _ _ _ Hp) Hdeg Hsa) as Hf1.
    destruct (Hfin _ Hf1) as [pl' [Hfe Hf]]. cbn [sa_init_state st_pl] in Hfe. rewrite Hfe in H.
    inversion H. subst pl'. exact Hf.
Qed.

(* ---------------------------------------------------------------------------------------------- *)
(* Resource arithmetic of the kernel: every intermediate dictionary is the chip's dictionary with a *)
(* per-resource offset                                                                              *)
(* ---------------------------------------------------------------------------------------------- *)
Definition adj (f : res -> Z) (a : resources) : resources :=
  map (fun rq => (fst rq, snd rq + f (fst rq))) a.

Lemma adj_keys : forall f a, map fst (adj f a) = map fst a.
Proof. intros f a. unfold adj. rewrite map_map. reflexivity. Qed.

Lemma adj_adj : forall f g a, adj f (adj g a) = adj (fun r => g r + f r) a.
Proof.
  intros f g a. unfold adj. rewrite map_map. apply map_ext. intros [r q]. cbn [fst snd]. f_equal. lia.
Qed.

Lemma adj_ext : forall f g a, (forall r, f r = g r) -> adj f a = adj g a.
Proof. intros f g a H. unfold adj. apply map_ext. intros [r q]. cbn [fst snd]. rewrite H. reflexivity. Qed.

Lemma adj_zero : forall f a, (forall r, f r = 0) -> adj f a = a.
Proof.
  intros f a H. unfold adj. rewrite <- (map_id a) at 2. apply map_ext. intros [r q]. cbn [fst snd]. rewrite H.
  f_equal. lia.
Qed.

Lemma add_adj : forall a d, add_resources a d = adj (fun r => rget r d) a.
Proof. reflexivity. Qed.

Lemma sub_adj : forall a d, subtract_resources a d = adj (fun r => - rget r d) a.
Proof. intros a d. unfold subtract_resources, adj. apply map_ext. intros [r q]. cbn [fst snd]. f_equal. Qed.

Lemma rget_adj : forall f a r, In r (map fst a) -> rget r (adj f a) = rget r a + f r.
Proof.
  intros f a r H. unfold adj. rewrite (rget_map_entry (fun rq => snd rq + f (fst rq)) a r H). reflexivity.
Qed.

Definition dsum (vr : vresources) (vs : list vertex) (r : res) : Z := sumz (fun v => demand vr v r) vs.

Lemma dsum_cons : forall vr v vs r, dsum vr (v :: vs) r = demand vr v r + dsum vr vs r.
Proof. reflexivity. Qed.

Lemma demand_some : forall (vr : vresources) v d r, zassoc v vr = Some d -> demand vr v r = rget r d.
Proof. intros vr v d r H. unfold demand. rewrite H. reflexivity. Qed.

(* _get_candidate_swap *)
Lemma candidate_swap_spec : forall vr fixed need vs cr tm res,
  candidate_swap vr fixed need cr vs tm = Ok (Some res) ->
  exists added, res = tm ++ added
    /\ (forall v, In v added -> In v vs /\ zmem v fixed = false /\ exists d, zassoc v vr = Some d)
    /\ (NoDup vs -> NoDup added)
    /\ overallocated (subtract_resources (adj (dsum vr added) cr) need) = false.
Proof.
  intros vr fixed need vs. induction vs as [|v vs IH]; intros cr tm res H.
  - cbn [candidate_swap] in H. destruct (negb (overallocated (subtract_resources cr need))) eqn:E; [|discriminate].
    inversion H. subst res. exists []. rewrite app_nil_r. split; [reflexivity|]. split; [intros v []|].
    split; [intros _; constructor|]. rewrite adj_zero by (intros r; reflexivity).
    apply negb_true_iff in E. exact E.
  - cbn [candidate_swap] in H. destruct (negb (overallocated (subtract_resources cr need))) eqn:E.
    + inversion H. subst res. exists []. rewrite app_nil_r. split; [reflexivity|]. split; [intros u []|].
      split; [intros _; constructor|]. rewrite adj_zero by (intros r; reflexivity).
      apply negb_true_iff in E. exact E.
    + destruct (zmem v fixed) eqn:Ef.
      * destruct (IH cr tm res H) as [added [A1 [A2 [A3 A4]]]]. exists added. split; [exact A1|]. split.
        -- intros u Hu. destruct (A2 u Hu) as [B1 B2]. split; [right; exact B1 | exact B2].
        -- split; [|exact A4]. intros Hnd. apply A3. inversion Hnd. assumption.
      * unfold demand_of in H. destruct (zassoc v vr) as [d|] eqn:Ed; [|discriminate].
        destruct (IH (add_resources cr d) (tm ++ [v]) res H) as [added [A1 [A2 [A3 A4]]]].
        exists (v :: added). split; [rewrite A1, <- app_assoc; reflexivity|]. split.
        -- intros u [Hu | Hu].
           ++ subst u. split; [left; reflexivity|]. split; [exact Ef|]. exists d. exact Ed.
           ++ destruct (A2 u Hu) as [B1 B2]. split; [right; exact B1 | exact B2].
        -- split.
           ++ intros Hnd. inversion Hnd as [|? ? Hni Hnd']. subst. constructor; [|apply A3; exact Hnd'].
              intros Hin. apply Hni. apply (proj1 (A2 v Hin)).
           ++ rewrite add_adj, adj_adj in A4.
              rewrite (adj_ext (dsum vr (v :: added)) (fun r => rget r d + dsum vr added r) cr); [exact A4|].
              intros r. rewrite dsum_cons, (demand_some vr v d r Ed). reflexivity.
Qed.

Lemma back_fold : forall vr vs base,
  (forall v, In v vs -> exists d, zassoc v vr = Some d) ->
  fold_left (fun r v => match demand_of vr v with Some d => subtract_resources r d | None => r end) vs base
  = adj (fun r => - dsum vr vs r) base.
Proof.
  intros vr vs. induction vs as [|v vs IH]; intros base H; cbn [fold_left].
  - symmetry. apply adj_zero. intros r. reflexivity.
  - destruct (H v (or_introl eq_refl)) as [d Hd].
    assert (E : demand_of vr v = Some d) by (unfold demand_of; exact Hd). rewrite E.
    rewrite IH by (intros u Hu; apply H; right; exact Hu). rewrite sub_adj, adj_adj.
    apply adj_ext. intros r. rewrite dsum_cons, (demand_some vr v d r Hd). lia.
Qed.

Lemma move_all_spec : forall vr vs b pl la lb ra rb pl' la' lb' ra' rb',
  move_all vr vs b pl la lb ra rb = Ok (pl', la', lb', ra', rb') ->
  (forall v, In v vs -> exists d, zassoc v vr = Some d)
  /\ pl' = fold_left (fun p v => pl_set v b p) vs pl
  /\ la' = fold_left (fun l v => list_remove_first v l) vs la
  /\ lb' = lb ++ vs
  /\ ra' = adj (dsum vr vs) ra
  /\ rb' = adj (fun r => - dsum vr vs r) rb.
Proof.
  intros vr vs. induction vs as [|v vs IH]; intros b pl la lb ra rb pl' la' lb' ra' rb' H; cbn [move_all] in H.
  - inversion H. subst. split; [intros v []|]. split; [reflexivity|]. split; [reflexivity|].
    split; [rewrite app_nil_r; reflexivity|].
    split; symmetry; apply adj_zero; intros r; reflexivity.
  - unfold demand_of in H. destruct (zassoc v vr) as [d|] eqn:Ed; [|discriminate].
    destruct (IH _ _ _ _ _ _ _ _ _ _ _ H) as [G1 [G2 [G3 [G4 [G5 G6]]]]].
    split; [intros u [Hu | Hu]; [subst u; exists d; exact Ed | apply G1; exact Hu]|].
    split; [exact G2|]. split; [exact G3|]. split; [rewrite G4, <- app_assoc; reflexivity|]. split.
    + rewrite G5, add_adj, adj_adj. apply adj_ext. intros r. rewrite dsum_cons, (demand_some vr v d r Ed). reflexivity.
    + rewrite G6, sub_adj, adj_adj. apply adj_ext. intros r. rewrite dsum_cons, (demand_some vr v d r Ed). lia.
Qed.

Lemma swap_spec : forall vr vas a vbs b s s1,
  swap vr vas a vbs b s = Ok s1 ->
  live (st_m s) a = true /\ live (st_m s) b = true
  /\ (forall v, In v vas \/ In v vbs -> exists d, zassoc v vr = Some d)
  /\ exists la lb, cassoc a (st_l2v s) = Some la /\ cassoc b (st_l2v s) = Some lb
     /\ st_pl s1 = fold_left (fun p v => pl_set v a p) vbs (fold_left (fun p v => pl_set v b p) vas (st_pl s))
     /\ st_l2v s1 = cupdate b (fold_left (fun l v => list_remove_first v l) vbs (lb ++ vas))
                      (cupdate a (fold_left (fun l v => list_remove_first v l) vas la ++ vbs) (st_l2v s))
     /\ same_frame (st_m s) (st_m s1)
     /\ pm_exc (st_m s1)
        = cupdate b (adj (fun r => dsum vr vbs r - dsum vr vas r) (chip_res (st_m s) b))
            (cupdate a (adj (fun r => dsum vr vas r - dsum vr vbs r) (chip_res (st_m s) a)) (pm_exc (st_m s)))
     /\ pm_res (st_m s1) = pm_res (st_m s).
Proof.
  intros vr vas a vbs b s s1 H. unfold swap, lv_get in H.
  destruct (cassoc a (st_l2v s)) as [la|] eqn:Ela; [|discriminate].
  destruct (cassoc b (st_l2v s)) as [lb|] eqn:Elb; [|discriminate].
  destruct (mget (st_m s) a) as [ra|] eqn:Ega; [|discriminate].
  destruct (mget (st_m s) b) as [rb|] eqn:Egb; [|discriminate].
  apply mget_spec in Ega. destruct Ega as [Hla Hra]. apply mget_spec in Egb. destruct Egb as [Hlb Hrb]. subst ra rb.
  destruct (move_all vr vas b (st_pl s) la lb (chip_res (st_m s) a) (chip_res (st_m s) b))
    as [[[[[pl1 la1] lb1] ra1] rb1]| | |] eqn:E1; cbn [bind] in H; try discriminate.
  destruct (move_all vr vbs a pl1 lb1 la1 rb1 ra1) as [[[[[pl2 lb2] la2] rb2] ra2]| | |] eqn:E2; cbn [bind] in H;
    try discriminate.
  destruct (mset (st_m s) a ra2) as [m1|] eqn:Es1; [|discriminate].
  destruct (mset m1 b rb2) as [m2|] eqn:Es2; [|discriminate]. inversion H. subst s1. clear H.
  cbn [st_pl st_l2v st_m].
  destruct (move_all_spec _ _ _ _ _ _ _ _ _ _ _ _ _ E1) as [M1 [M2 [M3 [M4 [M5 M6]]]]].
  destruct (move_all_spec _ _ _ _ _ _ _ _ _ _ _ _ _ E2) as [N1 [N2 [N3 [N4 [N5 N6]]]]].
  apply mset_spec in Es1. destruct Es1 as [F1 [R1 [_ [X1 _]]]].
  apply mset_spec in Es2. destruct Es2 as [F2 [R2 [_ [X2 _]]]].
  split; [exact Hla|]. split; [exact Hlb|]. split; [intros v [Hv | Hv]; [apply M1 | apply N1]; exact Hv|].
  exists la, lb. split; [reflexivity|]. split; [reflexivity|].
  split; [rewrite N2, M2; reflexivity|].
  split; [rewrite N3, N4, M3, M4; reflexivity|].
  split; [eapply same_frame_trans; eassumption|]. split.
  - rewrite X2, X1. f_equal.
    + rewrite N5, M6, adj_adj. apply adj_ext. intros r. lia.
    + f_equal. rewrite N6, M5, adj_adj. apply adj_ext. intros r. lia.
  - rewrite R2, R1. reflexivity.
Qed.

Lemma swap_chip_res : forall vr vas a vbs b s s1,
  swap vr vas a vbs b s = Ok s1 ->
  forall c, chip_res (st_m s1) c
            = if chip_eqb c b then adj (fun r => dsum vr vbs r - dsum vr vas r) (chip_res (st_m s) b)
              else if chip_eqb c a then adj (fun r => dsum vr vas r - dsum vr vbs r) (chip_res (st_m s) a)
              else chip_res (st_m s) c.
Proof.
  intros vr vas a vbs b s s1 H c. destruct (swap_spec _ _ _ _ _ _ _ H) as [_ [_ [_ [la [lb [_ [_ [_ [_ [_ [X R]]]]]]]]]]].
  unfold chip_res at 1. rewrite X, R, !cassoc_cupdate.
  destruct (chip_eqb c b); [reflexivity|]. destruct (chip_eqb c a); reflexivity.
Qed.

(* ---------------------------------------------------------------------------------------------- *)
(* Moving vertices between chips                                                                    *)
(* ---------------------------------------------------------------------------------------------- *)
Lemma load_move : forall (vr : vresources) pl v d x y c r,
  NoDup (map fst vr) -> zassoc v vr = Some d -> zassoc v pl = Some x ->
  load vr (pl_set v y pl) c r
  = load vr pl c r + (if chip_eqb y c then rget r d else 0) - (if chip_eqb x c then rget r d else 0).
Proof.
  intros vr pl v d x y c r. unfold load. induction vr as [|[u du] t IH]; intros Hnd Hz Hp.
  - cbn [zassoc] in Hz. discriminate.
  - cbn [map fold_right fst snd]. cbn [map fst] in Hnd. inversion Hnd as [|? ? Hni Hnd']. subst.
    cbn [zassoc] in Hz. rewrite on_chip_set. destruct (v =? u) eqn:E.
    + apply Z.eqb_eq in E. subst u. inversion Hz. subst du. rewrite Z.eqb_refl.
      pose proof (load_set_other t pl v y c r Hni) as Hoth. unfold load in Hoth. rewrite Hoth.
      unfold on_chip at 2. rewrite Hp. destruct (chip_eqb y c); destruct (chip_eqb x c); lia.
    + assert (E' : (u =? v) = false) by (rewrite Z.eqb_sym; exact E). rewrite E'.
      rewrite (IH Hnd' Hz Hp). lia.
Qed.

Lemma load_move_all : forall (vr : vresources) vs pl x y c r,
  NoDup (map fst vr) -> NoDup vs ->
  (forall v, In v vs -> zassoc v pl = Some x /\ exists d, zassoc v vr = Some d) ->
  load vr (fold_left (fun p v => pl_set v y p) vs pl) c r
  = load vr pl c r + (if chip_eqb y c then dsum vr vs r else 0) - (if chip_eqb x c then dsum vr vs r else 0).
Proof.
  intros vr vs. induction vs as [|v vs IH]; intros pl x y c r Hnd Hvs H; cbn [fold_left].
  - unfold dsum, sumz. cbn [map fold_right]. destruct (chip_eqb y c); destruct (chip_eqb x c); lia.
  - inversion Hvs as [|? ? Hni Hvs']. subst. destruct (H v (or_introl eq_refl)) as [Hp [d Hd]].
    rewrite (IH (pl_set v y pl) x y c r Hnd Hvs').
    + rewrite (load_move vr pl v d x y c r Hnd Hd Hp). rewrite dsum_cons, (demand_some vr v d r Hd).
      destruct (chip_eqb y c); destruct (chip_eqb x c); lia.
    + intros u Hu. destruct (H u (or_intror Hu)) as [Hpu Hdu]. split; [|exact Hdu].
      unfold pl_set. rewrite zassoc_zupdate. destruct (u =? v) eqn:E; [|exact Hpu].
      apply Z.eqb_eq in E. subst u. contradiction.
Qed.

Lemma remove_first_spec : forall v (l : list vertex), NoDup l ->
  NoDup (list_remove_first v l) /\ forall u, In u (list_remove_first v l) <-> In u l /\ u <> v.
Proof.
  intros v l. induction l as [|h t IH]; intros Hnd; cbn [list_remove_first].
  - split; [constructor|]. intros u. cbn [In]. tauto.
  - inversion Hnd as [|? ? Hni Hnd']. subst. destruct (IH Hnd') as [G1 G2]. destruct (h =? v) eqn:E.
    + apply Z.eqb_eq in E. subst h. split; [exact Hnd'|]. intros u. cbn [In]. split.
      * intros Hu. split; [right; exact Hu | intros Heq; subst; contradiction].
      * intros [[Hu | Hu] Hne]; [congruence | exact Hu].
    + apply Z.eqb_neq in E. split.
      * constructor; [|exact G1]. intros Hin. apply G2 in Hin. tauto.
      * intros u. cbn [In]. rewrite G2. split.
        -- intros [Hu | [Hu Hne]]; [subst; split; [left; reflexivity | exact E] | split; [right; exact Hu | exact Hne]].
        -- intros [[Hu | Hu] Hne]; [left; exact Hu | right; split; assumption].
Qed.

Lemma remove_fold_spec : forall vs (l : list vertex), NoDup l ->
  NoDup (fold_left (fun l v => list_remove_first v l) vs l)
  /\ forall u, In u (fold_left (fun l v => list_remove_first v l) vs l) <-> In u l /\ ~ In u vs.
Proof.
  induction vs as [|v vs IH]; intros l Hnd; cbn [fold_left].
  - split; [exact Hnd|]. intros u. cbn [In]. tauto.
  - destruct (remove_first_spec v l Hnd) as [R1 R2]. destruct (IH _ R1) as [G1 G2]. split; [exact G1|].
    intros u. rewrite G2, R2. cbn [In]. split.
    + intros [[H1 H2] H3]. split; [exact H1|]. intros [H | H]; [congruence | contradiction].
    + intros [H1 H2]. split; [split; [exact H1 | intros Heq; apply H2; left; congruence] | intros H; apply H2; right; exact H].
Qed.

Lemma swap_preserves : forall vr m0 cs fixed vas a vbs b s s1,
  wf_core vr m0 -> SAInv vr m0 cs fixed s ->
  a <> b -> NoDup vas -> NoDup vbs ->
  (forall v, In v vas -> zassoc v (st_pl s) = Some a /\ ~ In v fixed) ->
  (forall v, In v vbs -> zassoc v (st_pl s) = Some b /\ ~ In v fixed) ->
  swap vr vas a vbs b s = Ok s1 ->
  (forall r q, In (r, q) (chip_res (st_m s1) a) -> 0 <= q) ->
  (forall r q, In (r, q) (chip_res (st_m s1) b) -> 0 <= q) ->
  SAInv vr m0 cs fixed s1.
Proof.
  intros vr m0 cs fixed vas a vbs b s s1 Hwc [S1 S2 S3 S4 S5 S6 S7] Hab Hna Hnb Hva Hvb Hsw Hnna Hnnb.
  pose proof (swap_chip_res _ _ _ _ _ _ _ Hsw) as Hcr.
  destruct (swap_spec _ _ _ _ _ _ _ Hsw) as [Hla [Hlb [Hdem [la [lb [Ela [Elb [Epl [El2v [Hfr [Hexc Hres]]]]]]]]]]].
  destruct S1 as [Ifr Ik Ile Inn Ind]. destruct S2 as [P1 P2 P3].
  assert (Hla0 : live m0 a = true) by (rewrite <- (live_frame m0 (st_m s) a Ifr); exact Hla).
  assert (Hlb0 : live m0 b = true) by (rewrite <- (live_frame m0 (st_m s) b Ifr); exact Hlb).
  assert (Eab : chip_eqb a b = false) by (apply chip_eqb_neq; exact Hab).
  assert (Eba : chip_eqb b a = false) by (apply chip_eqb_neq; intros E; apply Hab; symmetry; exact E).
  set (pl1 := fold_left (fun p v => pl_set v b p) vas (st_pl s)) in *.
  destruct (fold_set_spec b vas (st_pl s) P1) as [Q1 Q2]. fold pl1 in Q1, Q2.
  destruct (fold_set_spec a vbs pl1 Q1) as [Q3 Q4]. rewrite <- Epl in Q3, Q4.
  assert (Hz2 : forall u, zassoc u (st_pl s1)
                          = if zmem u vbs then Some a else if zmem u vas then Some b else zassoc u (st_pl s)).
  { intros u. rewrite Q4, Q2. reflexivity. }
  assert (Hdisj : forall u, In u vas -> In u vbs -> False).
  { intros u H1 H2. destruct (Hva u H1) as [E1 _]. destruct (Hvb u H2) as [E2 _]. congruence. }
  assert (Hload : forall c r, load vr (st_pl s1) c r
            = load vr (st_pl s) c r
              + (if chip_eqb b c then dsum vr vas r else 0) - (if chip_eqb a c then dsum vr vas r else 0)
              + (if chip_eqb a c then dsum vr vbs r else 0) - (if chip_eqb b c then dsum vr vbs r else 0)).
  { intros c r. rewrite Epl. fold pl1.
    rewrite (load_move_all vr vbs pl1 b a c r (wc_nodup _ _ Hwc) Hnb).
    - unfold pl1. rewrite (load_move_all vr vas (st_pl s) a b c r (wc_nodup _ _ Hwc) Hna).
      + lia.
      + intros v Hv. split; [apply (proj1 (Hva v Hv)) | apply Hdem; left; exact Hv].
    - intros v Hv. split; [|apply Hdem; right; exact Hv]. rewrite Q2.
      destruct (zmem v vas) eqn:E; [reflexivity | apply (proj1 (Hvb v Hv))]. }
  constructor.
  - (* Inv *)
    constructor.
    + eapply same_frame_trans; eassumption.
    + intros c Hl. rewrite Hcr. destruct (chip_eqb c b) eqn:E1.
      * apply chip_eqb_eq in E1. subst c. rewrite adj_keys. apply Ik. exact Hl.
      * destruct (chip_eqb c a) eqn:E2.
        -- apply chip_eqb_eq in E2. subst c. rewrite adj_keys. apply Ik. exact Hl.
        -- apply Ik. exact Hl.
    + intros c r Hl Hr. rewrite Hcr, Hload. specialize (Ile c r Hl Hr).
      destruct (chip_eqb c b) eqn:E1.
      * apply chip_eqb_eq in E1. subst c. rewrite chip_eqb_refl, Eab.
        rewrite rget_adj by (rewrite (Ik b Hl); exact Hr). lia.
      * destruct (chip_eqb c a) eqn:E2.
        -- apply chip_eqb_eq in E2. subst c. rewrite chip_eqb_refl, Eba.
           rewrite rget_adj by (rewrite (Ik a Hl); exact Hr). lia.
        -- rewrite (chip_eqb_sym b c), E1, (chip_eqb_sym a c), E2. lia.
    + intros c r q Hl Hin. destruct (chip_eqb c b) eqn:E1.
      * apply chip_eqb_eq in E1. subst c. apply (Hnnb r q Hin).
      * destruct (chip_eqb c a) eqn:E2.
        -- apply chip_eqb_eq in E2. subst c. apply (Hnna r q Hin).
        -- rewrite Hcr, E1, E2 in Hin. apply (Inn c r q Hl Hin).
    + rewrite Hexc. apply cupdate_NoDup. apply cupdate_NoDup. exact Ind.
  - (* PlInv *)
    constructor.
    + exact Q3.
    + intros v c Hz. rewrite Hz2 in Hz. destruct (zmem v vbs); [inversion Hz; subst; exact Hla0|].
      destruct (zmem v vas); [inversion Hz; subst; exact Hlb0 | apply (P2 v c Hz)].
    + intros v Hv. apply zassoc_key_Some in Hv. destruct Hv as [c Hc]. rewrite Hz2 in Hc.
      destruct (zmem v vbs) eqn:E1.
      * apply zmem_In in E1. apply P3. apply (zassoc_Some_key v _ b). apply (proj1 (Hvb v E1)).
      * destruct (zmem v vas) eqn:E2.
        -- apply zmem_In in E2. apply P3. apply (zassoc_Some_key v _ a). apply (proj1 (Hva v E2)).
        -- apply P3. apply (zassoc_Some_key v _ c). exact Hc.
  - intros v Hv. apply S3 in Hv. apply zassoc_key_Some in Hv. destruct Hv as [c Hc].
    destruct (zmem v vbs) eqn:E1; [apply (zassoc_Some_key v _ a); rewrite Hz2, E1; reflexivity|].
    destruct (zmem v vas) eqn:E2; [apply (zassoc_Some_key v _ b); rewrite Hz2, E1, E2; reflexivity|].
    apply (zassoc_Some_key v _ c). rewrite Hz2, E1, E2. exact Hc.
  - intros v c Hin. rewrite Hz2. pose proof (S5 v c Hin) as Hf.
    assert (E1 : zmem v vbs = false) by (apply zmem_false; intros H; apply (proj2 (Hvb v H)); exact Hf).
    assert (E2 : zmem v vas = false) by (apply zmem_false; intros H; apply (proj2 (Hva v H)); exact Hf).
    rewrite E1, E2. apply S4. exact Hin.
  - exact S5.
  - (* l2v lists only vertices that are on the chip *)
    intros c ws u Hc Hu. rewrite El2v, !cassoc_cupdate in Hc.
    pose proof (S7 a la Ela) as Hnla. pose proof (S7 b lb Elb) as Hnlb.
    assert (Hnlbv : NoDup (lb ++ vas)).
    { apply NoDup_app_intro; [exact Hnlb | exact Hna|]. intros x H1 H2.
      pose proof (S6 b lb x Elb H1) as E1. destruct (Hva x H2) as [E2 _]. congruence. }
    destruct (chip_eqb c b) eqn:E1.
    + apply chip_eqb_eq in E1. subst c. inversion Hc. subst ws. clear Hc.
      destruct (remove_fold_spec vbs (lb ++ vas) Hnlbv) as [_ R2]. apply R2 in Hu. destruct Hu as [Hu Hnb'].
      rewrite Hz2. apply zmem_false in Hnb'. rewrite Hnb'. apply in_app_iff in Hu. destruct Hu as [Hu | Hu].
      * destruct (zmem u vas); [reflexivity | apply (S6 b lb u Elb Hu)].
      * apply zmem_In in Hu. rewrite Hu. reflexivity.
    + destruct (chip_eqb c a) eqn:E2.
      * apply chip_eqb_eq in E2. subst c. inversion Hc. subst ws. clear Hc. rewrite Hz2.
        destruct (zmem u vbs) eqn:Eb; [reflexivity|]. apply in_app_iff in Hu. destruct Hu as [Hu | Hu].
        -- destruct (remove_fold_spec vas la Hnla) as [_ R2]. apply R2 in Hu. destruct Hu as [Hu Hna'].
           apply zmem_false in Hna'. rewrite Hna'. apply (S6 a la u Ela Hu).
        -- apply zmem_In in Hu. congruence.
      * pose proof (S6 c ws u Hc Hu) as Ep. rewrite Hz2.
        assert (F1 : zmem u vbs = false).
        { apply zmem_false. intros H. destruct (Hvb u H) as [E _]. rewrite E in Ep. inversion Ep. subst c.
          rewrite chip_eqb_refl in E1. discriminate. }
        assert (F2 : zmem u vas = false).
        { apply zmem_false. intros H. destruct (Hva u H) as [E _]. rewrite E in Ep. inversion Ep. subst c.
          rewrite chip_eqb_refl in E2. discriminate. }
        rewrite F1, F2. exact Ep.
  - (* each l2v list has no repetitions *)
    intros c ws Hc. rewrite El2v, !cassoc_cupdate in Hc.
    pose proof (S7 a la Ela) as Hnla. pose proof (S7 b lb Elb) as Hnlb.
    destruct (chip_eqb c b) eqn:E1.
    + inversion Hc. subst ws. apply remove_fold_spec.
      apply NoDup_app_intro; [exact Hnlb | exact Hna|]. intros x H1 H2.
      pose proof (S6 b lb x Elb H1) as E3. destruct (Hva x H2) as [E4 _]. congruence.
    + destruct (chip_eqb c a) eqn:E2.
      * inversion Hc. subst ws. destruct (remove_fold_spec vas la Hnla) as [R1 R2].
        apply NoDup_app_intro; [exact R1 | exact Hnb|]. intros x H1 H2. apply R2 in H1. destruct H1 as [H1 _].
        pose proof (S6 a la x Ela H1) as E3. destruct (Hvb x H2) as [E4 _]. congruence.
      * apply (S7 c ws Hc).
Qed.

(* ---------------------------------------------------------------------------------------------- *)
(* One swap attempt of the Python kernel preserves the invariant                                    *)
(* ---------------------------------------------------------------------------------------------- *)
Lemma dsum_single : forall (vr : vresources) v d r, zassoc v vr = Some d -> dsum vr [v] r = rget r d.
Proof. intros vr v d r H. unfold dsum, sumz. cbn [map fold_right]. rewrite (demand_some vr v d r H). lia. Qed.

Theorem sa_step_preserves : forall vr m0 cs fixed s src dst accept s' kept,
  wf_core vr m0 -> SAInv vr m0 cs fixed s ->
  sa_step vr fixed s src dst accept = Ok (s', kept) ->
  SAInv vr m0 cs fixed s'.
Proof.
  intros vr m0 cs fixed s src dst accept s' kept Hwc Hsa H. unfold sa_step, demand_of, lv_get in H.
  destruct (zassoc src (st_pl s)) as [a|] eqn:Ea; [|discriminate].
  destruct (zassoc src vr) as [sres|] eqn:Esr; [|discriminate].
  destruct (zmem src fixed || chip_eqb dst a) eqn:Eguard; [discriminate|].
  apply orb_false_iff in Eguard. destruct Eguard as [Efix Ene].
  destruct (negb (live (st_m s) dst)) eqn:El; [inversion H; subst; exact Hsa|]. apply negb_false_iff in El.
  destruct (mget (st_m s) dst) as [dcr|] eqn:Egd; [|discriminate].
  destruct (cassoc dst (st_l2v s)) as [dvs0|] eqn:Elv; [|discriminate].
  destruct (mget (st_m s) a) as [scr|] eqn:Egs; [|discriminate].
  apply mget_spec in Egd. destruct Egd as [_ Hdcr]. apply mget_spec in Egs. destruct Egs as [Hla Hscr]. subst dcr scr.
  destruct (candidate_swap vr fixed sres (chip_res (st_m s) dst) dvs0 []) as [o| | |] eqn:Ec; cbn [bind] in H;
    try discriminate.
  destruct o as [dvs|]; [|inversion H; subst; exact Hsa].
  destruct (candidate_swap_spec _ _ _ _ _ _ _ Ec) as [added [A1 [A2 [A3 A4]]]]. cbn [app] in A1. subst added.
  pose proof (A3 (sv_l2v_nodup _ _ _ _ _ Hsa dst dvs0 Elv)) as Hnd_dvs.
  assert (Hdem : forall v, In v dvs -> exists d, zassoc v vr = Some d) by (intros v Hv; apply (A2 v Hv)).
  rewrite (back_fold vr dvs _ Hdem) in H.
  match type of H with (if ?b then _ else _) = _ => destruct b eqn:Eback end; [inversion H; subst; exact Hsa|].
  assert (Hab : a <> dst).
  { apply chip_eqb_neq in Ene. intros E. apply Ene. symmetry. exact E. }
  assert (Hsrc : forall v, In v [src] -> zassoc v (st_pl s) = Some a /\ ~ In v fixed).
  { intros v [Hv | []]. subst v. split; [exact Ea | apply zmem_false; exact Efix]. }
  assert (Hdv : forall v, In v dvs -> zassoc v (st_pl s) = Some dst /\ ~ In v fixed).
  { intros v Hv. destruct (A2 v Hv) as [B1 [B2 _]]. split; [apply (sv_l2v _ _ _ _ _ Hsa dst dvs0 v Elv B1) | apply zmem_false; exact B2]. }
  assert (Hns : NoDup [src]) by (constructor; [intros [] | constructor]).
  destruct (swap vr [src] a dvs dst s) as [s1| | |] eqn:Esw; cbn [bind] in H; try discriminate.
  pose proof (swap_chip_res _ _ _ _ _ _ _ Esw) as Hcr1.
  assert (Edst_a : chip_eqb a dst = false) by (apply chip_eqb_neq; exact Hab).
  assert (Hs1 : SAInv vr m0 cs fixed s1).
  { apply (swap_preserves vr m0 cs fixed [src] a dvs dst s s1 Hwc Hsa Hab Hns Hnd_dvs Hsrc Hdv Esw).
    - intros r q Hin. rewrite Hcr1, Edst_a, chip_eqb_refl in Hin.
      apply (overallocated_false _ Eback r q). rewrite add_adj, adj_adj.
      rewrite (adj_ext _ (fun r0 => dsum vr [src] r0 - dsum vr dvs r0)); [exact Hin|].
      intros r0. cbn beta. change (dsum vr [src] r0) with (demand vr src r0 + 0). unfold demand. rewrite Esr. lia.
    - intros r q Hin. rewrite Hcr1, chip_eqb_refl in Hin.
      apply (overallocated_false _ A4 r q). rewrite sub_adj, adj_adj.
      rewrite (adj_ext _ (fun r0 => dsum vr dvs r0 - dsum vr [src] r0)); [exact Hin|].
      intros r0. cbn beta. change (dsum vr [src] r0) with (demand vr src r0 + 0). unfold demand. rewrite Esr. lia. }
  destruct accept.
  - inversion H. subst. exact Hs1.
  - destruct (swap vr [src] dst dvs a s1) as [s2| | |] eqn:Esw2; cbn [bind] in H; try discriminate.
    inversion H. subst s' kept. clear H.
    pose proof (swap_chip_res _ _ _ _ _ _ _ Esw2) as Hcr2.
    (* where the vertices are after the first swap *)
    destruct (swap_spec _ _ _ _ _ _ _ Esw) as [_ [_ [_ [la [lb [_ [_ [Epl1 _]]]]]]]].
    destruct (fold_set_spec dst [src] (st_pl s) (pi_nodup _ _ _ (sv_pl _ _ _ _ _ Hsa))) as [Q1 Q2].
    destruct (fold_set_spec a dvs _ Q1) as [_ Q4]. rewrite <- Epl1 in Q4.
    assert (Hsrc_dvs : zmem src dvs = false).
    { apply zmem_false. intros Hin. destruct (Hdv src Hin) as [E _]. congruence. }
    assert (Hab' : dst <> a) by (intros E; apply Hab; symmetry; exact E).
    apply (swap_preserves vr m0 cs fixed [src] dst dvs a s1 s2 Hwc Hs1 Hab' Hns Hnd_dvs).
    + intros v [Hv | []]. subst v. split; [|apply zmem_false; exact Efix].
      rewrite Q4, Hsrc_dvs, Q2. unfold zmem. cbn [existsb]. rewrite Z.eqb_refl. reflexivity.
    + intros v Hv. split; [|apply (proj2 (Hdv v Hv))]. rewrite Q4.
      assert (Hz : zmem v dvs = true) by (apply zmem_In; exact Hv). rewrite Hz. reflexivity.
    + exact Esw2.
    + (* the resources of the destination chip are what they were before the attempt *)
      intros r q Hin. rewrite Hcr2, (chip_eqb_sym dst a), Edst_a, chip_eqb_refl in Hin.
      rewrite Hcr1, chip_eqb_refl, adj_adj, adj_zero in Hin by (intros r0; lia).
      apply (inv_nonneg _ _ _ _ _ (sv_inv _ _ _ _ _ Hsa) dst r q); [|exact Hin].
      rewrite <- (live_frame m0 (st_m s) dst (inv_frame _ _ _ _ _ (sv_inv _ _ _ _ _ Hsa))). exact El.
    + (* and so are those of the source chip *)
      intros r q Hin. rewrite Hcr2, chip_eqb_refl in Hin.
      rewrite Hcr1, Edst_a, chip_eqb_refl, adj_adj, adj_zero in Hin by (intros r0; lia).
      apply (inv_nonneg _ _ _ _ _ (sv_inv _ _ _ _ _ Hsa) a r q); [|exact Hin].
      rewrite <- (live_frame m0 (st_m s) a (inv_frame _ _ _ _ _ (sv_inv _ _ _ _ _ Hsa))). exact Hla.
Qed.

Lemma sa_steps_preserve : forall vr m0 cs fixed draws s s',
  wf_core vr m0 -> SAInv vr m0 cs fixed s -> sa_steps vr fixed s draws = Ok s' -> SAInv vr m0 cs fixed s'.
Proof.
  intros vr m0 cs fixed draws. induction draws as [|[[src dst] acc] t IH]; intros s s' Hwc Hsa H; cbn [sa_steps] in H.
  - inversion H. subst. exact Hsa.
  - destruct (sa_step vr fixed s src dst acc) as [[s1 k]| | |] eqn:E; cbn [bind fst] in H; try discriminate.
    apply (IH s1 s' Hwc (sa_step_preserves _ _ _ _ _ _ _ _ _ _ Hwc Hsa E) H).
Qed.

(* The annealer's answer, for ANY kernel: whatever state satisfying the invariant the kernel hands back,
   its placement expands (finalise_same_chip_constraints) to a feasible placement of the original
   problem.  The initial state satisfies the invariant and every _step of the Python kernel preserves it;
   a kernel preserving it (for whatever sequence of temperatures, distance limits and step counts the
   float-valued schedule produces) therefore yields a feasible result. *)
Theorem anneal_result_feasible : forall vr m cs lp vp s0,
  wf_problem vr m cs -> consistent cs -> sa_prepare vr m cs lp vp = Ok s0 ->
  exists cs1,
    wf_core (ss_vr s0) m
    /\ SAInv (ss_vr s0) m cs1 (map fst (ss_fixed s0)) (sa_init_state s0)
    /\ forall s, SAInv (ss_vr s0) m cs1 (map fst (ss_fixed s0)) s ->
                 exists pl, finalise (rev (ss_subs s0)) (st_pl s) = Ok pl /\ Feasible vr m cs pl.
Proof.
  intros vr m cs lp vp s0 W Hc Hp. destruct (sa_prepare_inv vr m cs lp vp s0 W Hc Hp) as [cs1 [Ea Hsa]].
  destruct (merged_problem vr m cs (ss_vr s0) cs1 (ss_subs s0) W Hc Ea) as [Hpw [Hdeg [_ Hfin]]].
  exists cs1. split; [exact (pwf_core _ _ _ Hpw)|]. split; [exact Hsa|].
  intros s Hs. apply Hfin. apply (SAInv_feasible _ _ _ _ _ (pwf_core _ _ _ Hpw) (pwf_cv _ _ _ Hpw) Hdeg Hs).
Qed.

(* in particular for the Python kernel, after any sequence of swap attempts *)
Theorem sa_python_kernel_feasible : forall vr m cs lp vp s0 draws s,
  wf_problem vr m cs -> consistent cs -> sa_prepare vr m cs lp vp = Ok s0 ->
  sa_steps (ss_vr s0) (map fst (ss_fixed s0)) (sa_init_state s0) draws = Ok s ->
  exists pl, finalise (rev (ss_subs s0)) (st_pl s) = Ok pl /\ Feasible vr m cs pl.
Proof.
  intros vr m cs lp vp s0 draws s W Hc Hp Hs.
  destruct (anneal_result_feasible vr m cs lp vp s0 W Hc Hp) as [cs1 [Hwc [Hinit Hall]]].
  apply Hall. apply (sa_steps_preserve _ _ _ _ draws _ _ Hwc Hinit Hs).
Qed.

(* ---------------------------------------------------------------------------------------------- *)
(* A concrete annealing run (non-vacuity of the SA theorems): a same-chip group fixed by a location *)
(* constraint, a per-chip reservation; the first draw is an accepted swap that moves TWO vertices   *)
(* out of the destination chip, the second passes every check, is performed and then reverted.     *)
(* ---------------------------------------------------------------------------------------------- *)
Definition exs_vr : vresources := [(1, [(0, 2)]); (2, [(0, 1)]); (3, [(0, 1)]); (4, [(0, 1)]); (5, [(0, 1)])].
Definition exs_m : pmachine :=
  {| pm_width := 2; pm_height := 1; pm_res := [(0, 4)]; pm_exc := []; pm_dead := [] |}.
Definition exs_cs : list pconstr := [PCSameChip [4; 5]; PCLocation 4 (0, 0); PCReserve 0 0 2 (Some (1, 0))].

Lemma exs_known : resource_known exs_m 0.
Proof. split; [left; reflexivity|]. intros c d H. destruct H. Qed.

Lemma exs_wf : wf_problem exs_vr exs_m exs_cs.
Proof.
  constructor.
  - cbn. repeat constructor; cbn; intuition discriminate.
  - intros v H. cbn in H. intuition lia.
  - intros v d H. unfold exs_vr in H. in_cases; cbn; repeat constructor; cbn; intuition.
  - intros v d r q H Hq. unfold exs_vr in H. in_cases; lia.
  - intros v d r q H Hq. unfold exs_vr in H. in_cases; exact exs_known.
  - cbn. constructor.
  - split; [intros r q H; cbn in H; in_cases; lia | intros c d r q H; destruct H].
  - intros k v H Hv. unfold exs_cs in H. in_cases; cbn in Hv; in_cases; cbn; tauto.
  - intros r s e loc H. unfold exs_cs in H. in_cases. exact exs_known.
Qed.

Lemma exs_consistent : consistent exs_cs.
Proof.
  exists (fun _ => (0, 0)). split.
  - intros v c H. unfold exs_cs in H. in_cases. reflexivity.
  - intros vs a b _ _ _. reflexivity.
Qed.

Lemma exs_run :
  wf_problem exs_vr exs_m exs_cs /\ consistent exs_cs
  /\ exists s0 s1 s2 s2' s,
       sa_prepare exs_vr exs_m exs_cs [] [] = Ok s0
       /\ st_pl (sa_init_state s0) = [(1, (0, 0)); (2, (1, 0)); (3, (1, 0)); (-1, (0, 0))]
       (* vertex 1 (two units) to chip (1,0): vertices 2 and 3 are swapped out; accepted *)
       /\ sa_step (ss_vr s0) (map fst (ss_fixed s0)) (sa_init_state s0) 1 (1, 0) true = Ok (s1, true)
       /\ st_pl s1 = [(1, (1, 0)); (2, (0, 0)); (3, (0, 0)); (-1, (0, 0))]
       (* vertex 1 back to (0,0): passes every check (with accept = true it is kept) ... *)
       /\ sa_step (ss_vr s0) (map fst (ss_fixed s0)) s1 1 (0, 0) true = Ok (s2', true)
       /\ st_pl s2' = [(1, (0, 0)); (2, (1, 0)); (3, (1, 0)); (-1, (0, 0))]
       (* ... and with accept = false it is performed and reverted *)
       /\ sa_step (ss_vr s0) (map fst (ss_fixed s0)) s1 1 (0, 0) false = Ok (s2, false)
       /\ st_pl s2 = st_pl s1
       /\ sa_steps (ss_vr s0) (map fst (ss_fixed s0)) (sa_init_state s0) [(1, (1, 0), true); (1, (0, 0), false)] = Ok s
       /\ finalise (rev (ss_subs s0)) (st_pl s) = Ok [(1, (1, 0)); (2, (0, 0)); (3, (0, 0)); (4, (0, 0)); (5, (0, 0))].
Proof.
  split; [exact exs_wf|]. split; [exact exs_consistent|].
  do 5 eexists. repeat (split; [vm_compute; reflexivity|]). vm_compute. reflexivity.
Qed.
