(* C16 -- Fixed-point conversion saturates, is monotone and inverts exactly. *)
From Coq Require Import ZArith Reals List Bool.
From Flocq Require Import Core BinarySingleNaN.
Require Import Rig.Model.Base Rig.Model.FixFloat Rig.Spec.FixFloat Rig.Proofs.FixFloat.
Open Scope Z_scope.

Theorem C16_roundtrip_refuted :
  representable true 64 (2 ^ 53 + 1) /\ roundtrip true 64 0 (2 ^ 53 + 1) = Ok (2 ^ 53).
Proof. exact roundtrip_refuted. Qed.
