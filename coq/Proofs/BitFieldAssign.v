(* Safety of assign_fields: the layout invariant (co-present placed fields are disjoint and inside the
   bit field, lengths fit the recorded maxima) is preserved by every step of both passes, and after a
   successful call every field is placed. *)
From Coq Require Import ZArith List Bool Lia.
Require Import Rig.Model.Base Rig.Model.BitField Rig.Spec.BitField.
Require Import Rig.Proofs.BitFieldBits Rig.Proofs.BitFieldTree.
Import ListNotations.
Open Scope Z_scope.

Definition entries (t : tree) := flat t [].

(* ------------------------------------------------------------------ store *)
Lemma length_sset s : forall fid f, length (sset s fid f) = length s.
Proof. induction s as [|x s IH]; intros [|n] f; simpl; auto. Qed.

Lemma sget_sset_same s : forall fid f, (fid < length s)%nat -> sget (sset s fid f) fid = f.
Proof.
  unfold sget. induction s as [|x s IH]; intros [|n] f H; simpl in *; try lia; auto.
  apply IH. lia.
Qed.

Lemma sget_sset_other s : forall fid g f, fid <> g -> sget (sset s fid f) g = sget s g.
Proof.
  unfold sget. induction s as [|x s IH]; intros [|n] [|m] f H; simpl in *; try congruence; auto.
Qed.

Lemma frange_sset_other s fid g f : fid <> g -> frange (sset s fid f) g = frange s g.
Proof. intros H. unfold frange. now rewrite sget_sset_other. Qed.

Lemma frange_set_pos s fid l st : (fid < length s)%nat ->
  frange (sset s fid (set_pos (sget s fid) l st)) fid = Some (st, l).
Proof. intros H. unfold frange. rewrite sget_sset_same by exact H. reflexivity. Qed.

(* ------------------------------------------------------------------ well-formed trees *)
Record wf_tree (t : tree) (n : nat) : Prop := {
  wf_nodup : NoDup (map e_fid (entries t));
  wf_bound : forall e, In e (entries t) -> (e_fid e < n)%nat;
  wf_self : forall e, In e (entries t) -> compat (e_path e) (e_path e);
  wf_names : forall e1 e2, In e1 (entries t) -> In e2 (entries t) ->
               compat (e_path e1) (e_path e2) -> e_name e1 = e_name e2 -> e_fid e1 = e_fid e2 }.

Lemma nodup_map_inj {A B} (f : A -> B) (l : list A) :
  NoDup (map f l) -> forall a b, In a l -> In b l -> f a = f b -> a = b.
Proof.
  induction l as [|x l IH]; simpl; intros Hnd a b Ha Hb Hf; [tauto|].
  inversion Hnd as [|? ? Hnot Hnd']; subst.
  destruct Ha as [<-|Ha], Hb as [<-|Hb]; auto.
  - exfalso. apply Hnot. rewrite Hf. now apply in_map.
  - exfalso. apply Hnot. rewrite <- Hf. now apply in_map.
Qed.

Lemma wf_same_fid t n e1 e2 :
  wf_tree t n -> In e1 (entries t) -> In e2 (entries t) -> e_fid e1 = e_fid e2 -> e1 = e2.
Proof. intros W. apply nodup_map_inj. apply (wf_nodup _ _ W). Qed.

(* the lookup by name made by _assign_fields finds the node's own field *)
Lemma wf_get_field t n fv i f0 fid :
  wf_tree t n -> In (fv, (i, f0)) (entries t) -> get_field t i fv = Some fid -> fid = f0.
Proof.
  intros W Hin Hg. apply get_field_enabled in Hg. apply enabled_flat0 in Hg.
  destruct Hg as [path [Hp Hen]].
  pose proof (wf_self _ _ W _ Hin) as Hself. simpl in Hself.
  assert (Hc : compat fv path).
  { eapply enabled_both_compat; [|exact Hen]. now apply self_enabled. }
  symmetry. apply (wf_names _ _ W (fv, (i, f0)) (path, (i, fid))); auto.
Qed.

(* ------------------------------------------------------------------ the layout invariant *)
Definition Disj (t : tree) (s : list field) : Prop :=
  forall e1 e2, In e1 (entries t) -> In e2 (entries t) -> e_fid e1 <> e_fid e2 ->
    compat (e_path e1) (e_path e2) ->
    forall st1 l1 st2 l2, frange s (e_fid e1) = Some (st1, l1) -> frange s (e_fid e2) = Some (st2, l2) ->
      st1 + l1 <= st2 \/ st2 + l2 <= st1.

Definition InRange (L : Z) (t : tree) (s : list field) : Prop :=
  forall e st l, In e (entries t) -> frange s (e_fid e) = Some (st, l) -> 0 <= st /\ st + l <= L.

Definition LenMax (t : tree) (s : list field) : Prop :=
  forall e, In e (entries t) ->
    1 <= f_max (sget s (e_fid e)) /\
    forall l, f_len (sget s (e_fid e)) = Some l -> 0 < l /\ f_max (sget s (e_fid e)) < 2 ^ l.

Definition LInv (L : Z) (t : tree) (s : list field) : Prop :=
  Disj t s /\ InRange L t s /\ LenMax t s.

(* positions never change once a field has both *)
Definition Stable (s s' : list field) : Prop :=
  (forall g st l, frange s g = Some (st, l) -> frange s' g = Some (st, l)) /\
  (forall g, f_max (sget s' g) = f_max (sget s g) /\ f_tags (sget s' g) = f_tags (sget s g)) /\
  (forall g l, f_len (sget s g) = Some l -> f_len (sget s' g) = Some l) /\
  (forall g p, f_start (sget s g) = Some p -> f_start (sget s' g) = Some p).

Lemma Stable_refl s : Stable s s.
Proof. repeat split; auto. Qed.

Lemma Stable_trans a b c : Stable a b -> Stable b c -> Stable a c.
Proof.
  intros [A1 [A2 [A3 A4]]] [B1 [B2 [B3 B4]]]. repeat split; auto.
  - destruct (B2 g) as [-> _]. apply A2.
  - destruct (B2 g) as [_ ->]. apply A2.
Qed.

(* the mask of assigned bits contains every placed field that is compatible with the node *)
Definition Covers (t : tree) (s : list field) (fv : fvals) (a : Z) : Prop :=
  forall e st l, In e (entries t) -> compat fv (e_path e) -> frange s (e_fid e) = Some (st, l) ->
    forall k, st <= k < st + l -> Z.testbit a k = true.

(* ------------------------------------------------------------------ one field *)
Lemma assign_field_ok L orig a f a' f' :
  assign_field L orig a f = Ok (a', f') ->
  (forall l, f_len f = Some l -> 0 < l) ->
  exists st l, f' = set_pos f l st /\ 0 <= st /\ 0 < l /\ st + l <= L
    /\ (f_len f = Some l \/ (f_len f = None /\ l = bitlen (f_max f)))
    /\ (forall k, st <= k < st + l -> Z.testbit a k = false)
    /\ (forall k, Z.testbit a' k = Z.testbit a k || Z.testbit (range_mask st l) k)
    /\ (forall p, f_start f = Some p -> st = p).
Proof.
  intros H Hpos. unfold assign_field in H.
  set (len := match f_len f with Some l => l | None => bitlen (f_max f) end) in *.
  assert (Hlen : 0 < len).
  { subst len. destruct (f_len f) as [l|] eqn:E; [now apply Hpos|apply bitlen_pos]. }
  assert (Hcase : f_len f = Some len \/ (f_len f = None /\ len = bitlen (f_max f))).
  { subst len. destruct (f_len f); [now left|now right]. }
  destruct (f_start f) as [s0|] eqn:Es.
  - destruct (s0 <? 0) eqn:E0; [discriminate|]. apply Z.ltb_ge in E0.
    destruct (Z.land a (Z.shiftl (Z.shiftl 1 len - 1) s0) =? 0) eqn:E1; simpl in H; [|discriminate].
    apply Z.eqb_eq in E1.
    destruct (s0 + len <=? L) eqn:E2; [|discriminate]. apply Z.leb_le in E2.
    inversion H; subst a' f'. exists s0, len.
    rewrite scan_mask in * by lia.
    repeat split; auto; try lia.
    + apply land_range_zero; auto; lia.
    + intros k. apply Z.lor_spec.
    + intros p Hp. congruence.
  - destruct (first_fit _ 0 a (Z.shiftl 1 len - 1)) as [bit|] eqn:Ef.
    + destruct (bit + len <=? L) eqn:E2; [|discriminate]. apply Z.leb_le in E2.
      inversion H; subst a' f'.
      apply first_fit_spec in Ef. destruct Ef as [Hb Hz].
      exists bit, len. rewrite scan_mask in * by lia.
      repeat split; auto; try lia.
      * apply land_range_zero; auto; lia.
      * intros k. apply Z.lor_spec.
      * intros p Hp. discriminate.
    + destruct (L + len <=? L) eqn:E2; [|discriminate]. apply Z.leb_le in E2. lia.
Qed.

Lemma potential_bits_spec s : forall pf acc a,
  potential_bits s pf acc = Ok a ->
  (forall k, Z.testbit acc k = true -> Z.testbit a k = true) /\
  (forall i g st l, In (i, g) pf -> frange s g = Some (st, l) ->
     forall k, st <= k < st + l -> Z.testbit a k = true).
Proof.
  induction pf as [|[i0 g0] pf IH]; intros acc a H; simpl in H.
  - inversion H; subst. split; [auto|intros ? ? ? ? []].
  - unfold frange in *.
    destruct (f_len (sget s g0)) as [l0|] eqn:El; destruct (f_start (sget s g0)) as [st0|] eqn:Es.
    + destruct (st0 <? 0) eqn:E0; [discriminate|]. apply Z.ltb_ge in E0.
      apply IH in H. destruct H as [H1 H2]. split.
      * intros k Hk. apply H1. rewrite Z.lor_spec, Hk. reflexivity.
      * intros i g st l [Heq|Hin] Hr k Hk.
        -- inversion Heq; subst. rewrite Es, El in Hr. inversion Hr; subst.
           apply H1. rewrite Z.lor_spec. rewrite fmask_range by lia.
           rewrite (proj2 (range_mask_bit st l k E0 ltac:(lia))) by lia. apply orb_true_r.
        -- eapply H2; eauto.
    + apply IH in H. destruct H as [H1 H2]. split; [exact H1|].
      intros i g st l [Heq|Hin] Hr k Hk; [|eapply H2; eauto].
      inversion Heq; subst. rewrite Es in Hr. discriminate.
    + apply IH in H. destruct H as [H1 H2]. split; [exact H1|].
      intros i g st l [Heq|Hin] Hr k Hk; [|eapply H2; eauto].
      inversion Heq; subst. rewrite Es, El in Hr. discriminate.
    + apply IH in H. destruct H as [H1 H2]. split; [exact H1|].
      intros i g st l [Heq|Hin] Hr k Hk; [|eapply H2; eauto].
      inversion Heq; subst. rewrite Es in Hr. discriminate.
Qed.

Lemma potential_bits_covers t s fv a :
  potential_bits s (potential_fields t fv) 0 = Ok a -> Covers t s fv a.
Proof.
  intros H e st l Hin Hc Hr k Hk.
  apply potential_bits_spec in H. destruct H as [_ H].
  destruct e as [path [i g]]. simpl in *.
  eapply (H i g); eauto. apply potential_flat0. exists path. split; [exact Hin|].
  now apply compat_potential.
Qed.

(* ------------------------------------------------------------------ placing one field keeps the invariant *)
Lemma place_keeps_inv L t n s fv i f0 a a' st l :
  wf_tree t n -> length s = n -> In (fv, (i, f0)) (entries t) ->
  LInv L t s -> Covers t s fv a ->
  frange s f0 = None ->
  0 <= st -> 0 < l -> st + l <= L ->
  (f_len (sget s f0) = Some l \/ (f_len (sget s f0) = None /\ l = bitlen (f_max (sget s f0)))) ->
  (forall k, st <= k < st + l -> Z.testbit a k = false) ->
  (forall k, Z.testbit a' k = Z.testbit a k || Z.testbit (range_mask st l) k) ->
  (forall p0, f_start (sget s f0) = Some p0 -> st = p0) ->
  let s' := sset s f0 (set_pos (sget s f0) l st) in
  LInv L t s' /\ Covers t s' fv a' /\ Stable s s' /\ frange s' f0 = Some (st, l).
Proof.
  intros W Hn Hin [HD [HR HM]] HC Hnone Hst Hl HL Hlen Hfree Ha' Hkeep s'.
  assert (Hb : (f0 < length s)%nat). { rewrite Hn. apply (wf_bound _ _ W _ Hin). }
  assert (Hnew : frange s' f0 = Some (st, l)) by (apply frange_set_pos; exact Hb).
  assert (Hoth : forall g, f0 <> g -> frange s' g = frange s g) by (intros; now apply frange_sset_other).
  (* a placed compatible field is disjoint from the new range *)
  assert (Hsep : forall e st2 l2, In e (entries t) -> compat fv (e_path e) -> e_fid e <> f0 ->
                   frange s (e_fid e) = Some (st2, l2) -> st + l <= st2 \/ st2 + l2 <= st).
  { intros e st2 l2 He Hc Hne Hr.
    destruct (Z_le_gt_dec (st + l) st2) as [|G1]; [now left|].
    destruct (Z_le_gt_dec (st2 + l2) st) as [|G2]; [now right|]. exfalso.
    assert (Hl2 : 0 < l2).
    { unfold frange in Hr. destruct (f_start (sget s (e_fid e))); [|discriminate].
      destruct (f_len (sget s (e_fid e))) as [l'|] eqn:El'; [|discriminate]. inversion Hr; subst.
      apply (proj2 (HM _ He)). exact El'. }
    assert (Hk : st2 <= Z.max st st2 < st2 + l2) by lia.
    pose proof (HC _ _ _ He Hc Hr _ Hk) as T.
    rewrite Hfree in T by lia. discriminate. }
  split; [|split; [|split]]; auto.
  - split; [|split].
    + (* Disj *)
      intros e1 e2 H1 H2 Hne Hc st1 l1 st2 l2 R1 R2.
      destruct (Nat.eq_dec (e_fid e1) f0) as [E1|N1]; destruct (Nat.eq_dec (e_fid e2) f0) as [E2|N2].
      * congruence.
      * rewrite E1, Hnew in R1. inversion R1; subst st1 l1.
        rewrite Hoth in R2 by congruence.
        assert (e1 = (fv, (i, f0))) by (eapply wf_same_fid; eauto). subst e1.
        unfold e_path in Hc at 1. simpl in Hc. eapply Hsep; eauto.
      * rewrite E2, Hnew in R2. inversion R2; subst st2 l2.
        rewrite Hoth in R1 by congruence.
        assert (e2 = (fv, (i, f0))) by (eapply wf_same_fid; eauto). subst e2.
        unfold e_path in Hc at 2. simpl in Hc.
        destruct (Hsep e1 st1 l1 H1 (compat_sym _ _ Hc) N1 R1); lia.
      * rewrite Hoth in R1, R2 by congruence. apply (HD e1 e2 H1 H2 Hne Hc _ _ _ _ R1 R2).
    + (* InRange *)
      intros e st0 l0 He Hr. destruct (Nat.eq_dec (e_fid e) f0) as [E|N].
      * rewrite E, Hnew in Hr. inversion Hr; subst. lia.
      * rewrite Hoth in Hr by congruence. eapply HR; eauto.
    + (* LenMax *)
      intros e He. destruct (Nat.eq_dec (e_fid e) f0) as [E|N].
      * rewrite E. subst s'. rewrite sget_sset_same by exact Hb. simpl.
        assert (He0 : In (fv, (i, f0)) (entries t)) by exact Hin.
        destruct (HM _ He0) as [M1 M2]. unfold e_fid in M1, M2. simpl in M1, M2. split; [exact M1|].
        intros l0 El0. inversion El0; subst l0. split; [exact Hl|].
        destruct Hlen as [Hl1|[Hl1 Hl2]].
        -- now apply M2.
        -- subst l. apply bitlen_fits. lia.
      * subst s'. rewrite sget_sset_other by congruence. now apply HM.
  - (* Covers *)
    intros e st0 l0 He Hc Hr k Hk. rewrite Ha'.
    destruct (Nat.eq_dec (e_fid e) f0) as [E|N].
    + rewrite E, Hnew in Hr. inversion Hr; subst.
      rewrite (proj2 (range_mask_bit st0 l0 k Hst ltac:(lia))) by lia. apply orb_true_r.
    + rewrite Hoth in Hr by congruence. rewrite (HC _ _ _ He Hc Hr _ Hk). reflexivity.
  - (* Stable *)
    split; [|split; [|split]].
    + intros g st0 l0 Hr. destruct (Nat.eq_dec f0 g) as [<-|N]; [congruence|]. now rewrite Hoth.
    + intros g. subst s'. destruct (Nat.eq_dec f0 g) as [<-|N].
      * rewrite sget_sset_same by exact Hb. simpl. auto.
      * rewrite sget_sset_other by exact N. auto.
    + intros g l0 El0. subst s'. destruct (Nat.eq_dec f0 g) as [<-|N].
      * rewrite sget_sset_same by exact Hb. simpl.
        destruct Hlen as [Hl1|[Hl1 _]]; congruence.
      * now rewrite sget_sset_other by exact N.
    + intros g p0 Hp0. subst s'. destruct (Nat.eq_dec f0 g) as [<-|N].
      * rewrite sget_sset_same by exact Hb. simpl. f_equal. now apply Hkeep.
      * now rewrite sget_sset_other by exact N.
Qed.

Lemma Covers_stable t s s' fv a :
  (forall g, frange s' g = frange s g) -> Covers t s fv a -> Covers t s' fv a.
Proof. intros H C e st l He Hc Hr. rewrite H in Hr. eapply C; eauto. Qed.

Ltac same_store HI := split; [first [assumption|reflexivity]|split; [exact HI|split; [apply Stable_refl|]]].

(* ------------------------------------------------------------------ the loop over a node's fields *)
Lemma assign_idents_inv L orig pos t n fv :
  wf_tree t n ->
  forall ids a s s' err,
    (forall x, In x ids -> In (fv, x) (entries t)) ->
    length s = n -> LInv L t s -> Covers t s fv a ->
    assign_idents L orig pos t fv ids a s = (s', err) ->
    length s' = n /\ LInv L t s' /\ Stable s s'
    /\ (err = None -> pos = true -> forall x, In x ids -> frange s' (snd x) <> None).
Proof.
  intros W. induction ids as [|[i f0] ids IH]; intros a s s' err Hids Hn HI HC H; simpl in H.
  - inversion H; subst. same_store HI. intros _ _ x [].
  - assert (Hin0 : In (fv, (i, f0)) (entries t)) by (apply Hids; now left).
    assert (Hids' : forall x, In x ids -> In (fv, x) (entries t)) by (intros; apply Hids; now right).
    destruct (get_field t i fv) as [fid|] eqn:Eg.
    2:{ inversion H; subst. same_store HI. discriminate. }
    assert (fid = f0) by (eapply wf_get_field; eauto). subst fid.
    assert (Hskip : forall (Hr : frange s f0 <> None \/ True) s2 e2,
              assign_idents L orig pos t fv ids a s = (s2, e2) ->
              (e2 = None -> pos = true -> frange s f0 <> None) ->
              length s2 = n /\ LInv L t s2 /\ Stable s s2
              /\ (e2 = None -> pos = true -> forall x, In x ((i, f0) :: ids) -> frange s2 (snd x) <> None)).
    { intros _ s2 e2 H2 Hp. destruct (IH _ _ _ _ Hids' Hn HI HC H2) as [A [B [C D]]].
      split; [exact A|split; [exact B|split; [exact C|]]]. intros E1 E2 x [<-|Hx]; [|now apply D].
      simpl. specialize (Hp E1 E2). destruct (frange s f0) as [[st l]|] eqn:Er; [|congruence].
      destruct C as [C _]. rewrite (C _ _ _ Er). discriminate. }
    destruct (f_len (sget s f0)) as [l0|] eqn:El; destruct (f_start (sget s f0)) as [st0|] eqn:Es.
    + (* already allocated *)
      apply (Hskip (or_intror I) _ _ H). intros _ _. unfold frange. rewrite Es, El. discriminate.
    + (* length known, position not *)
      destruct (pos || false) eqn:Ep.
      2:{ apply (Hskip (or_intror I) _ _ H). intros _ Hp. rewrite Hp in Ep. discriminate. }
      destruct (assign_field L orig a (sget s f0)) as [[a' f']| | |] eqn:Ea;
        try (inversion H; subst; same_store HI; discriminate).
      destruct HI as [HD [HR HM]].
      destruct (assign_field_ok _ _ _ _ _ _ Ea) as [st [l [Hf' [P1 [P2 [P3 [P4 [P5 [P6 P7]]]]]]]]].
      { intros l Hl. apply (proj2 (HM _ Hin0)). exact Hl. }
      subst f'.
      destruct (place_keeps_inv L t n s fv i f0 a a' st l W Hn Hin0 (conj HD (conj HR HM)) HC)
        as [I1 [C1 [S1 R1]]]; auto.
      { unfold frange. now rewrite Es. }
      assert (Hn1 : length (sset s f0 (set_pos (sget s f0) l st)) = n) by (now rewrite length_sset).
      destruct (IH _ _ _ _ Hids' Hn1 I1 C1 H) as [A [B [C D]]].
      split; [exact A|split; [exact B|split; [eapply Stable_trans; eauto|]]].
      intros E1 E2 x [<-|Hx]; [|now apply D]. simpl. destruct C as [C _]. rewrite (C _ _ _ R1). discriminate.
    + (* position known, length not: assigned in either pass *)
      assert (Ep : pos || true = true) by apply orb_true_r. rewrite Ep in H.
      destruct (assign_field L orig a (sget s f0)) as [[a' f']| | |] eqn:Ea;
        try (inversion H; subst; same_store HI; discriminate).
      destruct HI as [HD [HR HM]].
      destruct (assign_field_ok _ _ _ _ _ _ Ea) as [st [l [Hf' [P1 [P2 [P3 [P4 [P5 [P6 P7]]]]]]]]].
      { intros l Hl. apply (proj2 (HM _ Hin0)). exact Hl. }
      subst f'.
      destruct (place_keeps_inv L t n s fv i f0 a a' st l W Hn Hin0 (conj HD (conj HR HM)) HC)
        as [I1 [C1 [S1 R1]]]; auto.
      { unfold frange. now rewrite Es, El. }
      assert (Hn1 : length (sset s f0 (set_pos (sget s f0) l st)) = n) by (now rewrite length_sset).
      destruct (IH _ _ _ _ Hids' Hn1 I1 C1 H) as [A [B [C D]]].
      split; [exact A|split; [exact B|split; [eapply Stable_trans; eauto|]]].
      intros E1 E2 x [<-|Hx]; [|now apply D]. simpl. destruct C as [C _]. rewrite (C _ _ _ R1). discriminate.
    + (* neither known *)
      destruct (pos || false) eqn:Ep.
      2:{ apply (Hskip (or_intror I) _ _ H). intros _ Hp. rewrite Hp in Ep. discriminate. }
      destruct (assign_field L orig a (sget s f0)) as [[a' f']| | |] eqn:Ea;
        try (inversion H; subst; same_store HI; discriminate).
      destruct HI as [HD [HR HM]].
      destruct (assign_field_ok _ _ _ _ _ _ Ea) as [st [l [Hf' [P1 [P2 [P3 [P4 [P5 [P6 P7]]]]]]]]].
      { intros l Hl. apply (proj2 (HM _ Hin0)). exact Hl. }
      subst f'.
      destruct (place_keeps_inv L t n s fv i f0 a a' st l W Hn Hin0 (conj HD (conj HR HM)) HC)
        as [I1 [C1 [S1 R1]]]; auto.
      { unfold frange. now rewrite Es. }
      assert (Hn1 : length (sset s f0 (set_pos (sget s f0) l st)) = n) by (now rewrite length_sset).
      destruct (IH _ _ _ _ Hids' Hn1 I1 C1 H) as [A [B [C D]]].
      split; [exact A|split; [exact B|split; [eapply Stable_trans; eauto|]]].
      intros E1 E2 x [<-|Hx]; [|now apply D]. simpl. destruct C as [C _]. rewrite (C _ _ _ R1). discriminate.
Qed.

Lemma assign_node_inv L orig pos t n s node s' err :
  wf_tree t n -> (forall x, In x (snd node) -> In (fst node, x) (entries t)) ->
  length s = n -> LInv L t s ->
  assign_node L orig pos t s node = (s', err) ->
  length s' = n /\ LInv L t s' /\ Stable s s'
  /\ (err = None -> pos = true -> forall x, In x (snd node) -> frange s' (snd x) <> None).
Proof.
  intros W Hnode Hn HI H. unfold assign_node in H.
  destruct (potential_bits s (potential_fields t (fst node)) 0) as [a| | |] eqn:Ep;
    try (inversion H; subst; same_store HI; discriminate).
  eapply assign_idents_inv; eauto. now apply potential_bits_covers.
Qed.

Lemma assign_nodes_inv L orig pos t n : wf_tree t n ->
  forall nodes s s' err,
    (forall nd x, In nd nodes -> In x (snd nd) -> In (fst nd, x) (entries t)) ->
    length s = n -> LInv L t s ->
    assign_nodes L orig pos t s nodes = (s', err) ->
    length s' = n /\ LInv L t s' /\ Stable s s'
    /\ (err = None -> pos = true -> forall nd x, In nd nodes -> In x (snd nd) -> frange s' (snd x) <> None).
Proof.
  intros W. induction nodes as [|nd nodes IH]; intros s s' err Hnodes Hn HI H; simpl in H.
  - inversion H; subst. same_store HI. intros _ _ ? ? [].
  - destruct (assign_node L orig pos t s nd) as [s1 ek] eqn:E1.
    destruct (assign_node_inv _ _ _ _ _ _ _ _ _ W (fun x Hx => Hnodes nd x (or_introl eq_refl) Hx) Hn HI E1)
      as [A [B [C D]]].
    destruct ek as [k|].
    + inversion H; subst s' err.
      split; [exact A|split; [exact B|split; [exact C|discriminate]]].
    + destruct (IH _ _ _ (fun nd' x H1 H2 => Hnodes nd' x (or_intror H1) H2) A B H) as [A' [B' [C' D']]].
      split; [exact A'|split; [exact B'|split; [eapply Stable_trans; eauto|]]].
      intros E2 E3 nd' x [<-|Hnd] Hx.
      * specialize (D eq_refl E3 x Hx). destruct (frange s1 (snd x)) as [[st l]|] eqn:Er; [|congruence].
        destruct C' as [C' _]. rewrite (C' _ _ _ Er). discriminate.
      * eapply D'; eauto.
Qed.

(* ------------------------------------------------------------------ assign_fields *)
Lemma bfs_nodes_ok t : forall nd x, In nd (nodes_bfs t) -> In x (snd nd) -> In (fst nd, x) (entries t).
Proof. intros [fv fs] x H1 H2. eapply nodes_bfs_flat; eauto. Qed.

Lemma post_nodes_ok t : forall nd x, In nd (nodes_post t []) -> In x (snd nd) -> In (fst nd, x) (entries t).
Proof. intros [fv fs] x H1 H2. eapply nodes_post_flat; eauto. Qed.

Lemma assign_fields_inv orig st st' err :
  wf_tree (s_tree st) (length (s_store st)) -> LInv (s_len st) (s_tree st) (s_store st) ->
  assign_fields_gen orig st = (st', err) ->
  s_len st' = s_len st /\ s_tree st' = s_tree st /\ s_insts st' = s_insts st
  /\ length (s_store st') = length (s_store st)
  /\ LInv (s_len st) (s_tree st) (s_store st') /\ Stable (s_store st) (s_store st')
  /\ (err = None -> forall e, In e (entries (s_tree st)) -> frange (s_store st') (e_fid e) <> None).
Proof.
  intros W HI H. unfold assign_fields_gen in H.
  destruct (assign_nodes (s_len st) orig false (s_tree st) (s_store st) (nodes_bfs (s_tree st)))
    as [s1 [k|]] eqn:E1.
  - inversion H; subst; simpl.
    destruct (assign_nodes_inv _ _ _ _ _ W _ _ _ _
                (bfs_nodes_ok _)
                eq_refl HI E1) as [A [B [C _]]].
    split; [reflexivity|split; [reflexivity|split; [reflexivity|split; [exact A|split; [exact B|split; [exact C|discriminate]]]]]].
  - destruct (assign_nodes_inv _ _ _ _ _ W _ _ _ _
                (bfs_nodes_ok _)
                eq_refl HI E1) as [A [B [C _]]].
    destruct (assign_nodes (s_len st) orig true (s_tree st) s1 (nodes_post (s_tree st) [])) as [s2 e2] eqn:E2.
    inversion H; subst; simpl.
    destruct (assign_nodes_inv _ _ _ _ _ W _ _ _ _
                (post_nodes_ok _)
                A B E2) as [A' [B' [C' D']]].
    split; [reflexivity|split; [reflexivity|split; [reflexivity|split; [congruence|split; [exact B'|split; [apply (Stable_trans _ _ _ C C')|]]]]]].
    intros Ee e He. destruct (flat_nodes_post _ _ _ He) as [fs [F1 F2]].
      apply (D' Ee eq_refl (fst e, fs) (snd e) F1 F2).
Qed.

(* ------------------------------------------------------------------ from the invariant to the property *)
Lemma Disj_no_overlap t s : Disj t s -> no_overlap t s.
Proof.
  intros HD fv i1 f1 i2 f2 H1 H2 Hne st1 l1 st2 l2 R1 R2.
  apply enabled_flat0 in H1. apply enabled_flat0 in H2.
  destruct H1 as [p1 [H1 E1]], H2 as [p2 [H2 E2]].
  apply (HD (p1, (i1, f1)) (p2, (i2, f2))); auto.
  simpl. eapply enabled_both_compat; eauto.
Qed.

Lemma placed_all L t s :
  InRange L t s -> LenMax t s ->
  (forall e, In e (entries t) -> frange s (e_fid e) <> None) -> all_placed L t s.
Proof.
  intros HR HM Hp i f Hin. apply all_fields_flat in Hin. destruct Hin as [path Hin].
  specialize (Hp _ Hin). simpl in Hp. unfold e_fid in Hp. simpl in Hp.
  destruct (frange s f) as [[st l]|] eqn:Er; [|congruence].
  exists st, l. split; [exact Er|].
  destruct (HR _ _ _ Hin Er) as [R1 R2].
  assert (0 < l).
  { unfold frange in Er. destruct (f_start (sget s f)); [|discriminate].
    destruct (f_len (sget s f)) as [l'|] eqn:El; [|discriminate]. inversion Er; subst.
    apply (proj2 (HM _ Hin)). exact El. }
  lia.
Qed.

Lemma LenMax_wide t s : LenMax t s -> wide_enough t s.
Proof.
  intros HM i f l Hin Hl. apply all_fields_flat in Hin. destruct Hin as [path Hin].
  destruct (HM _ Hin) as [M1 M2]. destruct (M2 _ Hl). simpl in *. unfold e_fid in *. simpl in *. lia.
Qed.
