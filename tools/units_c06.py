UNITS = {
    "GenSCP": dict(
        props=["C06", "C07", "C09"],
        dumper="dump_c06.py"),
    "GenSCPShape": dict(
        props=["C06"],
        dumper="dump_c06s.py"),
}
