(* C04 -- Table minimisation never changes where any matched key is routed.  (work in progress) *)
From Coq Require Import ZArith List Bool.
Require Import Rig.Generated.GenTable Rig.Model.Base Rig.Model.Table Rig.Spec.Table.
Import ListNotations.
Open Scope Z_scope.

Example C04_validator_runs :
  check_route_eq [mkEntry 1 0 15 16777216; mkEntry 1 1 15 16777216] [mkEntry 1 0 14 16777216] = true.
Proof. vm_compute. reflexivity. Qed.
