(* C10 -- programs with contexts: what a program does is what the flat history of its executed,
   lexically addressed statements does *)
From Coq Require Import ZArith List Bool Lia.
Require Import Rig.Model.Base Rig.Model.Tables Rig.Model.Router Rig.Model.RouterProgram.
Require Import Rig.Spec.Router Rig.Proofs.RouterHistory.
Import ListNotations.
Open Scope Z_scope.

Lemma stmt_ind' : forall (P : stmt -> Prop),
  (forall kw body, Forall P body -> P (SWith kw body)) ->
  (forall body, Forall P body -> P (STry body)) ->
  (forall kw es id, P (SLoad kw es id)) ->
  (forall kw id, P (SRead kw id)) ->
  forall s, P s.
Proof.
  intros P H1 H2 H3 H4.
  refine (fix F (s : stmt) : P s :=
            match s with
            | SWith kw body => H1 kw body ((fix G (l : list stmt) : Forall P l :=
                                              match l with
                                              | [] => Forall_nil P
                                              | x :: l' => Forall_cons x (F x) (G l')
                                              end) body)
            | STry body => H2 body ((fix G (l : list stmt) : Forall P l :=
                                       match l with
                                       | [] => Forall_nil P
                                       | x :: l' => Forall_cons x (F x) (G l')
                                       end) body)
            | SLoad kw es id => H3 kw es id
            | SRead kw id => H4 kw id
            end).
Qed.

(* the unfolding equations: the rule itself *)
Lemma inner_is_run_list : forall l c m,
  (fix go (c : ctx) (m : machine) (l : list stmt) {struct l} : pres :=
     match l with
     | [] => ([], m, false)
     | s :: l' =>
         let r := run_stmt c m s in
         if snd r then r
         else let r' := go c (snd (fst r)) l' in
              (fst (fst r) ++ fst (fst r'), snd (fst r'), snd r')
     end) c m l = run_list c m l.
Proof.
  induction l as [|s l IH]; intros c m; [reflexivity|].
  cbn [run_list]. rewrite <- IH. reflexivity.
Qed.

(* a `with` block runs its body under the overridden arguments ... *)
Lemma run_stmt_with : forall c m kw body,
  run_stmt c m (SWith kw body) = run_list (override c kw) m body.
Proof. intros. cbn [run_stmt]. apply inner_is_run_list. Qed.

(* ... a `try` block runs its body and swallows the exception ... *)
Lemma run_stmt_try : forall c m body,
  run_stmt c m (STry body) = (fst (fst (run_list c m body)), snd (fst (run_list c m body)), false).
Proof. intros. cbn [run_stmt]. rewrite inner_is_run_list. reflexivity. Qed.

(* ... and whatever a statement was (a block left normally, a try block), the statements after it run under
   the arguments that were in force before it; after an exception nothing more of the list runs *)
Lemma run_list_cons : forall c m s l,
  run_list c m (s :: l)
  = if snd (run_stmt c m s) then run_stmt c m s
    else (fst (fst (run_stmt c m s)) ++ fst (fst (run_list c (snd (fst (run_stmt c m s))) l)),
          snd (fst (run_list c (snd (fst (run_stmt c m s))) l)),
          snd (run_list c (snd (fst (run_stmt c m s))) l)).
Proof. reflexivity. Qed.

Lemma run_history_app : forall a b m,
  run_history m (a ++ b)
  = (fst (run_history m a) ++ fst (run_history (snd (run_history m a)) b),
     snd (run_history (snd (run_history m a)) b)).
Proof.
  induction a as [|op a IH]; intros b m.
  - cbn [app run_history fst snd]. destruct (run_history m b); reflexivity.
  - destruct op as [x y ap es|x y]; cbn [app run_history fst snd]; rewrite IH; reflexivity.
Qed.

Definition machine_agrees (r : pres) (m : machine) : Prop :=
  snd (fst r) = snd (run_history m (map snd (fst (fst r)))).

Lemma run_list_agrees : forall l,
  Forall (fun s => forall c m, machine_agrees (run_stmt c m s) m) l ->
  forall c m, machine_agrees (run_list c m l) m.
Proof.
  induction l as [|s l IH]; intros H c m; [reflexivity|].
  inversion H as [|? ? Hs Hl]; subst. rewrite run_list_cons.
  destruct (snd (run_stmt c m s)); [apply Hs|].
  unfold machine_agrees. cbn [fst snd]. rewrite map_app, run_history_app. cbn [snd].
  rewrite <- (Hs c m). apply (IH Hl).
Qed.

Lemma run_stmt_agrees : forall s c m, machine_agrees (run_stmt c m s) m.
Proof.
  induction s as [kw body IH|body IH|kw es id|kw id] using stmt_ind'; intros c m.
  - rewrite run_stmt_with. apply run_list_agrees. exact IH.
  - rewrite run_stmt_try. pose proof (run_list_agrees body IH c m) as H. exact H.
  - cbn [run_stmt]. destruct (override c kw) as [[[x|] [y|]] a]; reflexivity.
  - cbn [run_stmt]. destruct (override c kw) as [[[x|] [y|]] a]; reflexivity.
Qed.

(* A program does to the machine what the flat history of its executed statements -- each with the chip and
   application id it addresses by the rule -- does; hence (run_history_ok) every one of them talks only to
   the chip it addresses, allocates for the application it addresses, and leaves every router as it was
   when it does not succeed. *)
Theorem program_is_its_history : forall prog m,
  let r := run_list ctx0 m prog in
  let hops := map snd (fst (fst r)) in
  snd (fst r) = snd (run_history m hops) /\ history_ok m hops (fst (run_history m hops)).
Proof.
  intros prog m. cbv zeta. split.
  - apply (run_list_agrees prog). apply Forall_forall. intros s _. apply run_stmt_agrees.
  - apply run_history_ok.
Qed.

(* the addressing rule, spelt out on the two shapes the seeded change of round 4 distinguishes: after a
   block -- left normally or by an exception that an enclosing try catches -- an implicitly addressed load
   goes to the chip of the ENCLOSING block *)
Lemma after_inner_block : forall m x y x2 y2 a es es2 id id2,
  let inner := SWith (mkKw (Some x2) (Some y2) None) [SLoad (mkKw None None None) es2 id2] in
  let prog := [SWith (mkKw (Some x) (Some y) (Some a)) [STry [inner]; SLoad (mkKw None None None) es id]] in
  map snd (fst (fst (run_list ctx0 m prog)))
  = [HLoad x2 y2 a es2; HLoad x y a es].
Proof.
  intros. subst inner prog.
  rewrite run_list_cons, run_stmt_with. cbn [override kw_x kw_y kw_app orelse fst snd ctx0].
  rewrite run_list_cons, run_stmt_try, run_list_cons, run_stmt_with.
  cbn [override kw_x kw_y kw_app orelse fst snd].
  rewrite !run_list_cons. cbn [run_stmt override kw_x kw_y kw_app orelse fst snd run_list].
  destruct (load_raises m x2 y2 a es2); cbn [fst snd app map];
    destruct (load_raises _ x y a es); reflexivity.
Qed.
