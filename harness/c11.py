"""C11 -- hexagonal mesh / torus shortest paths: theorems (Props/C11.v) + correspondence of the Gallina
model with rig.geometry / rig.links / route.utils + independent oracle (breadth-first search on the
explicit mesh / torus graph) on every implementation output."""
import json
import os
from collections import deque

import lib
from lib import zlit, vlist

LEVEL = "proof"
UNITS = ["GenGeometryLinks", "GenGeometryShapes", "GenGeometry"]
TWO53 = 2 ** 53

# SpiNNaker link numbering (E, NE, N, W, SW, S) -> vector; the oracle's own table, not read from rig
VEC = {0: (1, 0), 1: (1, 1), 2: (0, 1), 3: (-1, 0), 4: (-1, -1), 5: (0, -1)}
OPP = {0: 3, 1: 4, 2: 5, 3: 0, 4: 1, 5: 2}


# ------------------------------------------------------------------ independent oracle: graph search
def bfs(neigh, src, limit=None):
    dist = {src: 0}
    q = deque([src])
    while q:
        p = q.popleft()
        if limit is not None and dist[p] >= limit:
            continue
        for n in neigh(p):
            if n not in dist:
                dist[n] = dist[p] + 1
                q.append(n)
    return dist


def torus_neigh(w, h):
    return lambda p: [((p[0] + dx) % w, (p[1] + dy) % h) for dx, dy in VEC.values()]


def mesh_neigh(x0, y0, x1, y1):
    """finite mesh [x0,x1) x [y0,y1), no wrap-around"""
    def f(p):
        out = []
        for dx, dy in VEC.values():
            n = (p[0] + dx, p[1] + dy)
            if x0 <= n[0] < x1 and y0 <= n[1] < y1:
                out.append(n)
        return out
    return f


def hexn(dx, dy):
    """mesh distance of a displacement: E/NE/N steps cover max(|dx|, |dy|) when dx, dy have the same sign,
    |dx| + |dy| = |dx - dy| otherwise"""
    return max(abs(dx), abs(dy), abs(dx - dy))


def lattice_dist(w, h, a, b):
    """torus distance as the least mesh distance to a copy of b -- used alone only where the graph is too
    large to search (dimensions up to 2^60); on every graph that IS searched it is compared with BFS"""
    dx, dy = (b[0] - a[0]) % w, (b[1] - a[1]) % h
    return min(hexn(dx + i * w, dy + j * h) for i in (-2, -1, 0, 1) for j in (-2, -1, 0, 1))


BFS_LIMIT = 70000


class Dist(object):
    """memoised single-source distances"""

    def __init__(self):
        self.t = {}
        self.m = {}

    def torus(self, w, h, a, b):
        if w * h > BFS_LIMIT:
            return lattice_dist(w, h, a, b)
        k = (w, h, a)
        if k not in self.t:
            if len(self.t) > 40 and w * h > 400:
                self.t = {kk: v for kk, v in self.t.items() if kk[0] * kk[1] <= 400}
            self.t[k] = bfs(torus_neigh(w, h), a)
        if self.t[k][b] != lattice_dist(w, h, a, b):
            raise AssertionError("oracle self-check: BFS %d, lattice %d on %dx%d %r->%r"
                                 % (self.t[k][b], lattice_dist(w, h, a, b), w, h, a, b))
        return self.t[k][b]

    def mesh(self, a, b):
        """distance in the mesh without wrap-around: breadth-first search from a on a finite square mesh
        that contains the bounding box of a and b with a margin (the implementation is not told any size)"""
        d = (b[0] - a[0], b[1] - a[1])
        m = max(abs(d[0]), abs(d[1]))
        if m > 130:                        # too far to search: the closed form, checked against BFS below
            return hexn(*d)
        R = 4
        while R < m + 1:
            R *= 2
        if R not in self.m:
            self.m[R] = bfs(mesh_neigh(-R, -R, R + 1, R + 1), (0, 0))
        if self.m[R][d] != hexn(*d):
            raise AssertionError("oracle self-check: BFS %d, closed form %d for %r" % (self.m[R][d], hexn(*d), d))
        return self.m[R][d]


def to2d(v):
    return (v[0] - v[2], v[1] - v[2])


def hops(v):
    return abs(v[0]) + abs(v[1]) + abs(v[2])


def oracle(c, out, D):
    """Decide the sentences of C11 on one implementation output.  -> None | (key, message)"""
    fn = c["fn"]
    if c.get("malformed"):
        return None
    if out[0] == "hang":
        return (fn + "-hang", "%s does not return" % fn)
    if out[0] == "other":
        return (fn + "-raises", "%s raised %s on a valid input" % (fn, out[1]))
    r = out[1]
    if fn in ("mesh_len", "mesh_path"):
        a, b = to2d(c["s"]), to2d(c["d"])
        dist = D.mesh(a, b)
        if fn == "mesh_len":
            if r != dist:
                return ("mesh-length", "shortest_mesh_path_length = %d, graph distance = %d" % (r, dist))
        else:
            if hops(r) != dist:
                return ("mesh-path-hops", "shortest_mesh_path %r has %d hops, graph distance = %d" % (r, hops(r), dist))
            e = to2d(r)
            if (a[0] + e[0], a[1] + e[1]) != b:
                return ("mesh-path-destination", "shortest_mesh_path %r from %r does not lead to %r" % (r, a, b))
        return None
    if fn in ("torus_len", "torus_path"):
        w, h = c["w"], c["h"]
        a, b = to2d(c["s"]), to2d(c["d"])
        a = (a[0] % w, a[1] % h)
        b = (b[0] % w, b[1] % h)
        dist = D.torus(w, h, a, b)
        if fn == "torus_len":
            if r != dist:
                return ("torus-length", "shortest_torus_path_length = %d, graph distance = %d" % (r, dist))
        else:
            v = r["v"]
            e = to2d(v)
            if ((a[0] + e[0]) % w, (a[1] + e[1]) % h) != b:
                return ("torus-path-destination", "shortest_torus_path %r from %r does not lead to %r on %dx%d" % (v, a, b, w, h))
            if hops(v) != dist:
                return ("torus-path-hops", "shortest_torus_path %r has %d hops, graph distance = %d (random() numerators %r)"
                        % (v, hops(v), dist, c["ks"]))
        return None
    if fn == "ldf":
        v, start, width, height = c["v"], tuple(c["start"]), c["width"], c["height"]
        pos = start
        for i, (l, xy) in enumerate(r["out"]):
            if l not in VEC:
                return ("ldf-label", "step %d is labelled %r, not a link" % (i, l))
            ex, ey = pos[0] + VEC[l][0], pos[1] + VEC[l][1]
            if width is not None:
                ex %= width
            if height is not None:
                ey %= height
            if (ex, ey) != tuple(xy):
                return ("ldf-step", "step %d: from %r over link %d leads to %r, reported %r" % (i, pos, l, (ex, ey), xy))
            pos = tuple(xy)
        e = to2d(v)
        dest = (start[0] + e[0], start[1] + e[1])
        okx = pos[0] == dest[0] if width is None else pos[0] % width == dest[0] % width
        oky = pos[1] == dest[1] if height is None else pos[1] % height == dest[1] % height
        if not (okx and oky):
            return ("ldf-destination", "walk of %r from %r ends at %r, destination %r" % (v, start, pos, dest))
        if len(r["out"]) != hops(v):
            return ("ldf-length", "walk of %r has %d steps" % (v, len(r["out"])))
        if "expect_end" in c and pos != tuple(c["expect_end"]):
            return ("ldf-destination", "walk of the shortest path vector %r from %r ends at %r, not at %r"
                    % (v, start, pos, c["expect_end"]))
        return None
    if fn == "links":
        mem = r["members"]
        if sorted(m[0] for m in mem) != list(range(6)):
            return ("links-members", "Links members are %r" % [m[0] for m in mem])
        opp = {m[0]: m[1] for m in mem}
        vec = {m[0]: tuple(m[2]) for m in mem}
        fv = {(x, y): l for x, y, l in r["from_vector"]}
        for l in range(6):
            if opp[opp[l]] != l or opp[l] == l:
                return ("links-opposite", "opposite(opposite(%d)) = %d" % (l, opp[opp[l]]))
            if vec[opp[l]] != (-vec[l][0], -vec[l][1]):
                return ("links-opposite-vector", "to_vector(opposite(%d)) = %r, to_vector(%d) = %r" % (l, vec[opp[l]], l, vec[l]))
            if fv.get(vec[l]) != l:
                return ("links-from-to-vector", "from_vector(to_vector(%d)) = %r" % (l, fv.get(vec[l])))
            if vec[l] != VEC[l] or opp[l] != OPP[l]:
                return ("links-numbering", "link %d has vector %r, opposite %d (SpiNNaker numbering: %r, %d)" % (l, vec[l], opp[l], VEC[l], OPP[l]))
        if len(set(vec.values())) != 6:
            return ("links-vectors-distinct", "two links share a vector")
        # wrap-around collapse on every torus larger than 2 x 2 that the table covers
        n = c["n"]
        for w in range(3, n + 2):
            for h in range(3, n + 2):
                for x in range(w):
                    for y in range(h):
                        for l in range(6):
                            d = ((x + vec[l][0]) % w - x, (y + vec[l][1]) % h - y)
                            if fv.get(d) != l:
                                return ("links-from-vector-wrap", "from_vector(%r) = %r for the step over link %d from %r on %dx%d" % (d, fv.get(d), l, (x, y), w, h))
        return None
    if fn == "hex":
        R, start = c["radius"], tuple(c["start"])
        pts = [tuple(p) for p in r]
        if len(set(pts)) != len(pts):
            return ("hexagons-duplicate", "concentric_hexagons(%d) yields a chip twice" % R)
        box = (start[0] - R - 2, start[1] - R - 2, start[0] + R + 3, start[1] + R + 3)
        dist = bfs(mesh_neigh(*box), start, limit=R + 1)
        ball = set(p for p, d in dist.items() if d <= R)
        if set(pts) != ball:
            return ("hexagons-ball", "concentric_hexagons(%d, %r): %d chips missing, %d chips too many"
                    % (R, start, len(ball - set(pts)), len(set(pts) - ball)))
        ds = [dist[p] for p in pts]
        if any(ds[i] > ds[i + 1] for i in range(len(ds) - 1)):
            return ("hexagons-order", "concentric_hexagons(%d) is not nearest ring first" % R)
        return None
    if fn == "hexprefix":
        # a generator that was not run to its end: what it yielded must be the beginning of a valid
        # enumeration -- no duplicates, within the radius, ring by ring with every earlier ring complete
        R, start = c["radius"], tuple(c["start"])
        pts = [tuple(p) for p in r]
        if len(set(pts)) != len(pts):
            return ("hexagons-duplicate", "concentric_hexagons(%d) yields a chip twice" % R)
        need = 0
        while 1 + 3 * need * (need + 1) < len(pts):
            need += 1                          # the prefix cannot reach beyond ring `need`
        if len(pts) != min(c["n"], 1 + 3 * R * (R + 1)):
            return ("hexagons-ball", "concentric_hexagons(%d, %r) yielded %d chips when asked for %d"
                    % (R, start, len(pts), c["n"]))
        Rs = min(R, need + 1)
        box = (start[0] - Rs - 2, start[1] - Rs - 2, start[0] + Rs + 3, start[1] + Rs + 3)
        dist = bfs(mesh_neigh(*box), start, limit=Rs + 1)
        if any(p not in dist or dist[p] > R for p in pts):
            return ("hexagons-ball", "concentric_hexagons(%d, %r) yields a chip outside the radius" % (R, start))
        ds = [dist[p] for p in pts]
        if any(ds[i] > ds[i + 1] for i in range(len(ds) - 1)):
            return ("hexagons-order", "concentric_hexagons(%d) is not nearest ring first" % R)
        if pts:
            inner = set(p for p, d in dist.items() if d < ds[-1])
            if not inner <= set(pts):
                return ("hexagons-ball", "concentric_hexagons(%d, %r) moved on to ring %d with %d nearer chips missing"
                        % (R, start, ds[-1], len(inner - set(pts))))
        return None
    if fn == "from_vector":
        inv = {v: l for l, v in VEC.items()}
        if tuple(c["v"]) in inv and r != inv[tuple(c["v"])]:
            return ("links-from-to-vector", "from_vector(%r) = %r" % (c["v"], r))
        return None
    if fn == "to_xyz":
        if to2d(r) != tuple(c["xy"]):
            return ("to-xyz", "to_xyz(%r) = %r" % (c["xy"], r))
        return None
    if fn == "minimise":
        v = c["v"]
        if to2d(r) != to2d(v) or hops(r) != D.mesh((0, 0), to2d(v)):
            return ("minimise-xyz", "minimise_xyz(%r) = %r" % (v, r))
        return None
    return None


# ------------------------------------------------------------------ generators
def rep(rng, p, spread=3):
    k = rng.randint(-spread, spread)
    return [p[0] + k, p[1] + k, k]


def script(rng, style, i=0):
    if style == "random":
        return [rng.randrange(TWO53) for _ in range(4)], rng.randrange(0, 1000)
    if style == "prefer":
        ks = [TWO53 - 1] * 4
        ks[i % 4] = 0
        return ks, ["lo", "hi", rng.randrange(0, 1000)][(i // 4) % 3]     # each end of randint's range forced
    if style == "ties":
        k = rng.choice([0, TWO53 - 1, rng.randrange(TWO53)])
        return [k] * 4, rng.randrange(0, 1000)
    raise ValueError(style)


def torus_cases(rng, w, h, a, b, idx, styles):
    s, d = rep(rng, a), rep(rng, b)
    out = [dict(fn="torus_len", s=s, d=d, w=w, h=h)]
    for st in styles:
        i = idx
        if st.startswith("prefer") and st != "prefer":      # "prefer0" .. "prefer3": that approach first
            i, st = int(st[6:]) + 4 * idx, "prefer"
        ks, t = script(rng, st, i)
        out.append(dict(fn="torus_path", s=rep(rng, a), d=rep(rng, b), w=w, h=h, ks=ks, t=t, a=list(a), b=list(b)))
    return out


# ------------------------------------------------------------------ histories (state between calls)
FORMS = ["tuple", "list", "gen", "map", "iter"]


def ring_prefix(r):
    """number of chips yielded before ring r starts"""
    return 1 + 3 * r * (r - 1)


def gen_histories(chk):
    """Sequences of calls made in ONE interpreter: concentric_hexagons generators that are abandoned or
    suspended part-way through a ring nobody has walked before (each history h first touches ring h+1),
    interleaved generators, vectors / coordinates handed over as tuple, list, generator, map or iterator,
    and callers that modify the lists they were given before the next call.  Every call is judged on its
    own by the oracle and compared with the (stateless) model."""
    rng = chk.rng
    quick = chk.tier == "quick"
    out = []
    H = 10 if quick else 24
    for h in range(H):
        r = h + 1
        cut = ring_prefix(r) + rng.randint(1, 6 * r - 1)          # strictly inside ring r
        sa = [rng.randint(-6, 6), rng.randint(-6, 6)]
        sb = [rng.randint(-6, 6), rng.randint(-6, 6)]
        sform = ["list", "row", "iter", "tuple", "ndarray32"][h % 5]
        ops = [dict(op="hex_open", id=0, radius=r, start=sa, sform=sform)]
        kind = h % 3
        # the generator reads `start` once, when it is first resumed; afterwards the caller may do what
        # it likes with that object
        first = rng.randint(1, max(1, min(cut - 1, 6)))
        ops += [dict(op="hex_next", id=0, n=first), dict(op="hex_mutate", id=0, dx=rng.randint(-9, 9), dy=rng.randint(1, 9))]
        cut -= first
        if kind == 0:
            ops += [dict(op="hex_next", id=0, n=cut), dict(op="hex_drop", id=0, close=bool(h % 2)),
                    dict(op="hex_full", radius=r, start=sb)]
        elif kind == 1:
            ops += [dict(op="hex_next", id=0, n=cut), dict(op="hex_open", id=1, radius=r, start=sb),
                    dict(op="hex_next", id=1, n=10 ** 6), dict(op="hex_next", id=0, n=10 ** 6)]
        else:
            ops.append(dict(op="hex_open", id=1, radius=r, start=sb, sform="list"))
            left = {0: cut, 1: ring_prefix(r) + 6 * r + 5}
            while any(left.values()):
                i = rng.choice([k for k in left if left[k]])
                n = min(left[i], rng.randint(1, 7))
                ops.append(dict(op="hex_next", id=i, n=n))
                left[i] -= n
            ops.append(dict(op="hex_drop", id=0, close=False))
        ops.append(dict(op="hex_full", radius=rng.randint(0, r), start=[rng.randint(-3, 3), rng.randint(-3, 3)]))
        ops.append(dict(op="hex_full", radius=r, start=[0, 0]))
        out.append(dict(fn="history", ops=ops, kind="hexagons"))
    for h in range(12 if quick else 60):
        r = 2 + h % 5
        ops = [dict(op="hex_open", id=0, radius=r, start=[rng.randint(-6, 6), rng.randint(-6, 6)],
                    sform=["list", "row", "ndarray32", "iter"][h % 4]),
               dict(op="hex_next", id=0, n=rng.randint(1, 7))]
        for _ in range(r):
            ops += [dict(op="hex_mutate", id=0, dx=rng.randint(-9, 9), dy=rng.randint(-9, 9)),
                    dict(op="hex_next", id=0, n=rng.randint(1, 12))]
        ops.append(dict(op="hex_next", id=0, n=10 ** 6))
        out.append(dict(fn="history", ops=ops, kind="hexagons-start-modified"))
    for h in range(30 if quick else 300):
        ops = []
        for _ in range(rng.randint(8, 24)):
            k = rng.random()
            if k < 0.7:
                m = rng.choice([1, 2, 4])
                v = [0, 0, 0] if rng.random() < 0.3 else [rng.choice([0, rng.randint(-m, m), m, -m]) for _ in range(3)]
                ops.append(dict(op="ldf", v=v, start=[rng.randint(-2, 7), rng.randint(-2, 7)],
                                width=rng.choice([None, 3, 8]), height=rng.choice([None, 2, 6]),
                                ks=[rng.randrange(TWO53) for _ in range(3)],
                                form=rng.choice(FORMS), sform=rng.choice(FORMS),
                                then=rng.choice([None, None, "append", "extend", "clear", "reverse", "pop"])))
            elif k < 0.8:
                ops.append(dict(op="mesh_path", s=[rng.randint(-5, 5) for _ in range(3)],
                                d=[rng.randint(-5, 5) for _ in range(3)],
                                form=rng.choice(FORMS), dform=rng.choice(FORMS)))
            elif k < 0.9:
                ops.append(dict(op="minimise", v=[rng.randint(-5, 5) for _ in range(3)], form=rng.choice(FORMS)))
            else:
                w, hh = rng.randint(1, 9), rng.randint(1, 9)
                ops.append(dict(op="torus_path", s=[rng.randint(0, 8) for _ in range(3)],
                                d=[rng.randint(0, 8) for _ in range(3)], w=w, h=hh,
                                ks=[rng.randrange(TWO53) for _ in range(4)], t=rng.randrange(100),
                                form=rng.choice(FORMS), dform=rng.choice(FORMS)))
        out.append(dict(fn="history", ops=ops, kind="walks"))
    return out


def expand_history(c, o, hid):
    """-> [(derived case, implementation output)]: one ordinary case per call of the history (per generator
    for the hexagon generators), each carrying the prefix of the history that reproduces it"""
    ops = c["ops"]
    if o[0] != "ok":
        return [(dict(fn="hex", radius=0, start=[0, 0], replay_history=ops, hist=hid), o)]
    res = o[1]
    out = []
    gens = {}

    def flush(i, upto):
        g = gens.pop(i)
        base = dict(radius=g["radius"], start=g["start"], hist=hid, replay_history=ops[:upto + 1])
        if g["error"]:
            out.append((dict(base, fn="hex"), g["error"]))
        elif g["exhausted"]:
            out.append((dict(base, fn="hex"), ["ok", g["got"]]))
        else:
            out.append((dict(base, fn="hexprefix", n=len(g["got"])), ["ok", g["got"]]))
    for k, (op, r) in enumerate(zip(ops, res)):
        kind = op["op"]
        if kind == "hex_open":
            gens[op["id"]] = dict(radius=op["radius"], start=op["start"], got=[], exhausted=False, error=None, last=k)
        elif kind == "hex_next":
            g = gens[op["id"]]
            g["last"] = k
            if r[0] != "ok":
                g["error"] = r
            else:
                g["got"] += r[1]
                if len(r[1]) < op["n"]:
                    g["exhausted"] = True
        elif kind == "hex_drop":
            flush(op["id"], k)
        elif kind == "hex_mutate":
            pass                          # the caller's own object; judged through what the generator yields
        else:
            d = {kk: vv for kk, vv in op.items() if kk != "op"}
            d.update(fn={"hex_full": "hex"}.get(kind, kind), hist=hid, replay_history=ops[:k + 1])
            if kind == "torus_path":
                d["a"], d["b"] = list(to2d(op["s"])), list(to2d(op["d"]))
            out.append((d, r))
    for i in sorted(gens):
        flush(i, len(ops) - 1)
    return out


def expand(cases, outs, state):
    cs, os_ = [], []
    for c, o in zip(cases, outs):
        if c["fn"] == "history":
            state["hist"] = state.get("hist", 0) + 1
            for d, r in expand_history(c, o, state["hist"]):
                cs.append(d)
                os_.append(r)
        else:
            cs.append(c)
            os_.append(o)
    return cs, os_


def gen_phase1(chk):
    rng = chk.rng
    quick = chk.tier == "quick"
    cases = gen_histories(chk)          # first: they must be the first to touch each hexagon ring
    # regression: the outcome on which the code as found (float key) returned a non-shortest vector
    cases.append(dict(fn="torus_path", s=[0, 0, 0], d=[2, 0, 0], w=3, h=3, ks=[0, TWO53 - 1, 2 ** 52, 2 ** 52], t=0,
                      a=[0, 0], b=[2, 0], regression="float-key"))
    # exhaustive: all pairs of chips on all tori / finite meshes up to N x N
    N = 6 if quick else 13
    idx = 0
    for w in range(1, N + 1):
        if len(cases) > 60000:          # thorough tier: stream in batches (bounded memory)
            yield cases
            cases = []
        for h in range(1, N + 1):
            chips = [(x, y) for x in range(w) for y in range(h)]
            for a in chips:
                for b in chips:
                    idx += 1
                    if quick:
                        styles = ["random", "prefer"] + (["ties"] if idx % 5 == 0 else [])
                    elif w <= 6 and h <= 6:     # every tie-break outcome: each approach preferred in turn
                        styles = ["random", "prefer0", "prefer1", "prefer2", "prefer3", "ties"]
                    else:
                        styles = [] if idx % 3 else ["prefer" if idx % 2 else "random"]
                    new = torus_cases(rng, w, h, a, b, idx, styles)
                    if (w > 7 or h > 7) and idx % 32:
                        # beyond 7 x 7 every pair is still run and decided by the BFS oracle, but only one
                        # pair in 32 is also evaluated in the Coq model (volume)
                        for c in new:
                            c["nomodel"] = True
                    cases += new
                    if w <= 4 and h <= 4 or (not quick and w <= 6 and h <= 6):
                        s, d = rep(rng, a), rep(rng, b)
                        cases.append(dict(fn="mesh_len", s=s, d=d))
                        cases.append(dict(fn="mesh_path", s=rep(rng, a), d=rep(rng, b)))
    yield cases
    cases = []
    # random larger tori (thin ones included: the spiral adjustment needs |x| >= height)
    nbig = 10 if quick else 60
    per = 200 if quick else 400
    for i in range(nbig):
        kind = i % 5
        big = rng.randint(7, 255)
        w, h = [(big, rng.randint(7, 255)), (1, big), (big, 2), (2, big), (big, rng.choice([1, 3, 4]))][kind]
        for _ in range(4):
            a = (rng.randrange(w), rng.randrange(h))
            for j in range(per // 4):
                b = (rng.randrange(w), rng.randrange(h))
                if j % 7 == 0:      # coordinates outside the machine are reduced by the code
                    b = (b[0] + w * rng.randint(-2, 2), b[1] + h * rng.randint(-2, 2))
                idx += 1
                cases += torus_cases(rng, w, h, a, b, idx, ["random" if j % 2 else "prefer"])
    # random mesh pairs, any signs
    for _ in range(1500 if quick else 20000):
        a = (rng.randint(-40, 40), rng.randint(-40, 40))
        m = rng.choice([3, 12, 40])
        b = (a[0] + rng.randint(-m, m), a[1] + rng.randint(-m, m))
        cases.append(dict(fn="mesh_len", s=rep(rng, a, 50), d=rep(rng, b, 50)))
        cases.append(dict(fn="mesh_path", s=rep(rng, a, 50), d=rep(rng, b, 50)))
    # big numbers: one dimension up to 2^60 with a small other one, components beyond 2^53 (where floats
    # stop being exact); every tie-break preference and both ends of the spiral draw are forced
    for i in range(60 if quick else 1500):
        small = rng.choice([1, 2, 3, 3, 4, 5, 7])
        big = rng.choice([2 ** 58, 2 ** 60, 2 ** 55 + 1, rng.randint(2 ** 55, 2 ** 60), rng.randint(2 ** 55, 2 ** 60) | 1])
        w, h = (small, big) if i % 2 else (big, small)
        a = (rng.randrange(w), rng.randrange(h))
        far = rng.choice([rng.randint(2 ** 53, big // 2), big // 2 - rng.randint(0, 9), big // 5 + rng.randint(0, 9),
                          rng.randint(2 ** 53, big - 1)])
        b = ((a[0] + rng.randrange(w)) % w, (a[1] + far) % h) if i % 2 else ((a[0] + far) % w, (a[1] + rng.randrange(h)) % h)
        cases.append(dict(fn="torus_len", s=rep(rng, a), d=rep(rng, b), w=w, h=h, big=True))
        for j, t in enumerate(["lo", "hi", rng.randrange(10 ** 18)]):
            ks = [TWO53 - 1] * 4
            ks[(i + j) % 4] = 0
            cases.append(dict(fn="torus_path", s=rep(rng, a), d=rep(rng, b), w=w, h=h, ks=ks, t=t,
                              a=list(a), b=list(b), big=True))
        cases.append(dict(fn="mesh_len", s=rep(rng, a, 2 ** 54), d=rep(rng, b, 2 ** 54), big=True))
        cases.append(dict(fn="mesh_path", s=rep(rng, a, 2 ** 54), d=rep(rng, b, 2 ** 54), big=True))
        cases.append(dict(fn="minimise", v=[rng.randint(-2 ** 60, 2 ** 60) for _ in range(3)], big=True))
    # coordinate containers: the library only indexes / unpacks its coordinate arguments, so lists, numpy
    # integer arrays (rows of a table), tuples of numpy scalars and mixtures are inside the domain
    CF = ["tuple", "list", "ndarray", "ndarray32", "row", "npscalars", "iter"]
    for i in range(700 if quick else 8000):
        fn = ["mesh_len", "mesh_path", "torus_len", "torus_path", "ldf", "minimise", "to_xyz", "hex",
              "from_vector"][i % 9]
        f1, f2 = rng.choice(CF), rng.choice(CF)
        if i % 4 == 0:
            f1 = f2 = rng.choice(CF[2:])
        if fn in ("mesh_len", "torus_len"):       # these index their arguments: one-shot iterators are not sequences
            f1, f2 = f1.replace("iter", "list"), f2.replace("iter", "list")
        w, h = rng.randint(1, 9), rng.randint(1, 9)
        a = (rng.randrange(w), rng.randrange(h))
        b = a if i % 5 == 0 else (rng.randrange(w), rng.randrange(h))
        s3, d3 = rep(rng, a), rep(rng, b)
        if i % 10 == 0:
            d3 = list(s3)                     # equal coordinates in different containers
        if fn in ("mesh_len", "mesh_path"):
            c = dict(fn=fn, s=s3, d=d3, forms=dict(s=f1, d=f2))
        elif fn == "torus_len":
            c = dict(fn=fn, s=s3, d=d3, w=w, h=h, forms=dict(s=f1, d=f2))
        elif fn == "torus_path":
            ks, t = script(rng, rng.choice(["random", "prefer"]), i)
            c = dict(fn=fn, s=s3, d=d3, w=w, h=h, ks=ks, t=t, a=list(a), b=list(b), forms=dict(s=f1, d=f2))
        elif fn == "ldf":
            c = dict(fn=fn, v=[rng.choice([0, rng.randint(-4, 4)]) for _ in range(3)],
                     start=[rng.randint(-2, 8), rng.randint(-2, 8)], width=rng.choice([None, w]),
                     height=rng.choice([None, h]), ks=[rng.randrange(TWO53) for _ in range(3)],
                     forms=dict(v=f1, start=f2))
        elif fn == "minimise":
            c = dict(fn=fn, v=[rng.randint(-9, 9) for _ in range(3)], forms=dict(v=f1))
        elif fn == "to_xyz":
            c = dict(fn=fn, xy=[rng.randint(-9, 9), rng.randint(-9, 9)], forms=dict(xy=f1))
        elif fn == "hex":
            c = dict(fn=fn, radius=rng.randint(0, 4), start=[rng.randint(-5, 5), rng.randint(-5, 5)], forms=dict(start=f1))
        else:
            c = dict(fn=fn, v=[rng.randint(-3, 3), rng.randint(-3, 3)], forms=dict(v=f1))
        cases.append(c)
    # unsigned fixed-width vectors for the walks (components >= 0; z > 0 steps south-west, towards and across
    # x = 0 / y = 0 when the start is a signed / Python coordinate)
    UF = ["uint8", "uint16", "uint32", "uint64"]
    for i in range(240 if quick else 4000):
        v = [rng.choice([0, rng.randint(0, 5)]), rng.choice([0, rng.randint(0, 5)]), rng.randint(1, 4) if i % 4 else 0]
        width, height = rng.choice([(None, None), (5, 3), (6, 7), (3, None), (None, 5), (16, 8)])
        forms = dict(v=UF[i % 4])
        if i % 3 == 0:
            # an unsigned start admits no step in a negative direction at all under numpy 2 (adding the
            # Python int -1 to an unsigned scalar raises OverflowError whatever its value): reported to
            # the coordinator, kept out of this stream -- only East / North walks start unsigned
            v[2] = 0
            start = [rng.randint(0, 3), rng.randint(0, 3)]
            forms["start"] = UF[(i // 4) % 4]
        else:
            start = [rng.randint(0, 2), rng.randint(0, 2)]
            forms["start"] = rng.choice(["tuple", "list", "ndarray", "npscalars"])
        cases.append(dict(fn="ldf", v=v, start=start, width=width, height=height,
                          ks=[rng.randrange(TWO53) for _ in range(3)], forms=forms))
    # large radii, consumed lazily (a generator must not need the whole ball, nor deep recursion, to start)
    for R, n in [(1200, 400), (3000, 700), (3000, 1), (100000, 50)] + ([] if quick else [(10 ** 6, 2000), (2500, 5000)]):
        cases.append(dict(fn="hexprefix", radius=R, n=n, start=[rng.randint(-5, 5), rng.randint(-5, 5)]))
    # width / height as numpy integer scalars, walks crossing the edges (unsigned sizes only with walks that
    # never step below 0: under numpy 2 `-1 % numpy.uint8(5)` raises -- reported, kept out of the stream)
    for i in range(240 if quick else 3000):
        dt = ["int8", "int16", "int32", "int64", "uint8", "uint16", "uint32", "uint64"][i % 8]
        width, height = rng.choice([(5, 3), (6, 7), (3, None), (None, 5), (16, 8), (1, 2)])
        if dt.startswith("u"):
            v = [rng.randint(0, 7), rng.randint(0, 7), 0]
        else:
            v = [rng.randint(-7, 7), rng.randint(-7, 7), rng.choice([0, rng.randint(-5, 5)])]
        start = [rng.randrange(width or 4), rng.randrange(height or 4)]
        cases.append(dict(fn="ldf", v=v, start=start, width=width, height=height, wform=dt,
                          ks=[rng.randrange(TWO53) for _ in range(3)]))
    # from_vector on floats of integral value (Python / numpy floats, -0.0), adjacent and wrapping
    for i in range(160 if quick else 1500):
        m = rng.choice([1, 1, 2, 5])
        cases.append(dict(fn="from_vector", v=[rng.randint(-m, m), rng.randint(-m, m)],
                          forms=dict(v=["float", "npfloat64", "npfloat32", "negzero", "floatarray"][i % 5])))
    # kernels
    for _ in range(200 if quick else 3000):
        cases.append(dict(fn="minimise", v=[rng.randint(-9, 9) for _ in range(3)]))
        cases.append(dict(fn="to_xyz", xy=[rng.randint(-9, 9), rng.randint(-9, 9)]))
    # links (one exhaustive case), hexagons
    cases.append(dict(fn="links", n=5))
    for R in range(0, 9 if quick else 26):
        for start in [(0, 0), (rng.randint(-5, 5), rng.randint(-5, 5))]:
            cases.append(dict(fn="hex", radius=R, start=list(start)))
    # random walks of arbitrary (also non-minimal) vectors
    for i in range(1500 if quick else 12000):
        m = rng.choice([1, 2, 3, 6, 12])
        v = [rng.choice([0, 0, rng.randint(-m, m), rng.randint(-m, m), m, -m]) for _ in range(3)]
        width = rng.choice([None, 1, 2, 3, rng.randint(1, 9)])
        height = rng.choice([None, 1, 2, 3, rng.randint(1, 9)])
        start = [rng.randint(-3, 9), rng.randint(-3, 9)]
        ks = [rng.randrange(TWO53) for _ in range(3)]
        if i % 4 == 0:
            ks = [rng.choice([0, TWO53 - 1, ks[0]])] * 3           # equal draws: the sort is stable
        if i % 4 == 1:
            ks = [rng.choice([0, 1, TWO53 - 1, TWO53 - 2, k]) for k in ks]   # sums that round
        cases.append(dict(fn="ldf", v=v, start=start, width=width, height=height, ks=ks))
    # malformed stream: zero width / height (ZeroDivisionError in the code, outside the property)
    for _ in range(40):
        w, h = rng.choice([(0, 3), (3, 0), (0, 0)])
        s, d = [rng.randint(0, 3) for _ in range(3)], [rng.randint(0, 3) for _ in range(3)]
        cases.append(dict(fn="torus_len", s=s, d=d, w=w, h=h, malformed=True))
        cases.append(dict(fn="torus_path", s=s, d=d, w=w, h=h, ks=[1, 2, 3, 4], t=0, malformed=True))
        cases.append(dict(fn="ldf", v=[rng.randint(0, 2), 1, 0], start=[0, 0], width=w or None, height=h or None,
                          ks=[1, 2, 3], malformed=True))
    yield cases


def gen_phase2(chk, cases, outs):
    """Walk the vectors returned by shortest_torus_path longest-dimension-first from the source chip on
    the same torus (what the router does); in the thorough tier enumerate every spiral choice."""
    rng = chk.rng
    quick = chk.tier == "quick"
    more = []
    cand = [(c, o) for c, o in zip(cases, outs) if c["fn"] == "torus_path" and o[0] == "ok" and not c.get("malformed")
            and "hist" not in c]
    for c, o in cand:
        if not quick and o[1]["requests"] and c["w"] <= 13 and c["h"] <= 13:
            lo, hi, r = o[1]["requests"][0]
            for t in range(0, hi - lo + 1):
                if lo + t != r:
                    c2 = dict(c)
                    c2["t"] = t
                    more.append(c2)
    keep = 1500 if quick else 4000      # per batch
    sel = cand if len(cand) <= keep else rng.sample(cand, keep)
    for c, o in sel:
        v = o[1]["v"]
        if hops(v) > 300:
            continue
        w, h = c["w"], c["h"]
        a, b = to2d(c["s"]), to2d(c["d"])
        more.append(dict(fn="ldf", v=v, start=[a[0] % w, a[1] % h], width=w, height=h,
                         ks=[rng.randrange(TWO53) for _ in range(3)], expect_end=[b[0] % w, b[1] % h]))
    return more


# ------------------------------------------------------------------ Coq literals / canonical forms
def v3(v):
    return "(%s, %s, %s)" % (zlit(v[0]), zlit(v[1]), zlit(v[2]))


def v2(v):
    return "(%s, %s)" % (zlit(v[0]), zlit(v[1]))


def oz(x):
    return "None" if x is None else "(Some %s)" % zlit(x)


def coq_expr(c, o):
    fn = c["fn"]
    if fn == "mesh_len":
        return "shortest_mesh_path_length %s %s" % (v3(c["s"]), v3(c["d"]))
    if fn == "mesh_path":
        return "shortest_mesh_path %s %s" % (v3(c["s"]), v3(c["d"]))
    if fn == "torus_len":
        return "torus_path_length_checked %s %s %s %s" % (v3(c["s"]), v3(c["d"]), zlit(c["w"]), zlit(c["h"]))
    if fn == "torus_path":
        r = 0
        if o[0] == "ok" and o[1]["requests"]:
            r = o[1]["requests"][0][2]
        ks = " ".join(zlit(k) for k in c["ks"])
        args = "%s %s %s %s" % (v3(c["s"]), v3(c["d"]), zlit(c["w"]), zlit(c["h"]))
        return "tp %s %s %s" % (ks, zlit(r), args)
    if fn == "ldf":
        return "longest_dimension_first %s %s %s %s %s" % (
            " ".join(zlit(k) for k in c["ks"]), v3(c["v"]), v2(c["start"]), oz(c["width"]), oz(c["height"]))
    if fn == "links":
        n = c["n"]
        vs = vlist(v2((x, y)) for x in range(-n, n + 1) for y in range(-n, n + 1))
        return ("(map (fun l => (l, links_opposite l, links_to_vector l)) links_members, "
                "map links_from_vector %s)" % vs)
    if fn == "hex":
        return "concentric_hexagons %s %s" % (zlit(c["radius"]), v2(c["start"]))
    if fn == "hexprefix":
        need = 0
        while 1 + 3 * need * (need + 1) < c["n"]:
            need += 1
        # C11_hexagons_prefix: the list for radius R starts with the list for any smaller radius, so the
        # first n chips are those of the smallest radius that has n chips (keeps vm_compute cheap)
        return "firstn %d (concentric_hexagons %s %s)" % (c["n"], zlit(min(c["radius"], need)), v2(c["start"]))
    if fn == "from_vector":
        return "links_from_vector %s" % v2(c["v"])
    if fn == "to_xyz":
        return "to_xyz %s" % v2(c["xy"])
    if fn == "minimise":
        return "minimise_xyz %s" % v3(c["v"])
    raise ValueError(fn)


def unopt(x):
    return None if x is None else x[1]


def canon_model(c, v):
    fn = c["fn"]
    if fn in ("mesh_len",):
        return ["ok", v]
    if fn == "from_vector":
        return ["ok", unopt(v)]
    if fn in ("mesh_path", "to_xyz", "minimise"):
        return ["ok", list(v)]
    if fn == "torus_len":
        return ["ok", v[1]] if v[0] == "Ok" else ["other"]
    if fn == "torus_path":
        res, req = v
        if res[0] != "Ok":
            return ["other"]
        return ["ok", list(res[1]), None if req is None else list(req[1])]
    if fn == "ldf":
        if v[0] != "Ok":
            return ["other"]
        return ["ok", [[l, list(xy)] for l, xy in v[1]]]
    if fn == "links":
        mem, fv = v
        return ["ok", [[l, o, None if t is None else list(t[1])] for l, o, t in mem], [unopt(x) for x in fv]]
    if fn in ("hex", "hexprefix"):
        return ["ok", [list(p) for p in v]]
    raise ValueError(fn)


def canon_impl(c, o):
    fn = c["fn"]
    if o[0] != "ok":
        return ["other"] if o[0] == "other" else list(o)
    r = o[1]
    if fn == "torus_path":
        if r["nrandom"] != 4 or len(r["requests"]) > 1:
            return ["draws", r["nrandom"], r["requests"]]
        return ["ok", r["v"], r["requests"][0][:2] if r["requests"] else None]
    if fn == "ldf":
        if r["nrandom"] != 3:
            return ["draws", r["nrandom"]]
        return ["ok", r["out"]]
    if fn == "links":
        return ["ok", [m[:3] for m in r["members"]], [l for _, _, l in r["from_vector"]]]
    return ["ok", r]


def nontrivial(c, o):
    fn = c["fn"]
    if c.get("malformed") or o[0] != "ok":
        return False
    if fn in ("mesh_len", "mesh_path", "torus_len", "torus_path"):
        return to2d(c["s"]) != to2d(c["d"])
    if fn == "ldf":
        return hops(c["v"]) >= 2
    if fn == "hex":
        return c["radius"] >= 1
    if fn == "hexprefix":
        return c["n"] >= 2
    if fn == "minimise":
        return len(set(c["v"])) > 1
    return True


HEADER = ("From Coq Require Import ZArith List. Import ListNotations. Open Scope Z_scope.\n"
          "Require Import Rig.Model.Base Rig.Generated.GenGeometryLinks Rig.Generated.GenGeometry "
          "Rig.Model.Geometry.\n"
          "Definition tp k0 k1 k2 k3 r s d w h := (shortest_torus_path k0 k1 k2 k3 (fun _ _ => r) s d w h, "
          "torus_path_request k0 k1 k2 k3 s d w h).\n")


def run_impl(chk, cases):
    n = max(1, min(12, len(cases) // 400))
    size = (len(cases) + n - 1) // n
    chunks = [cases[i:i + size] for i in range(0, len(cases), size)]
    return [o for part in chk.impl_parallel("impl_c11.py", chunks) for o in part]


def process(chk, D, state, cases, outs):
    """oracle on every implementation output of the batch, then model against implementation"""
    keep = [i for i, o in enumerate(outs) if o[0] != "skipped"]
    cases, outs = [cases[i] for i in keep], [outs[i] for i in keep]
    for c in cases:
        if c["fn"] == "history":
            chk.count("history:" + c.get("kind", "replay"))
            chk.count("history:calls", len(c["ops"]))
    cases, outs = expand(cases, outs, state)
    nrep = state["nrep"]
    for c, o in zip(cases, outs):
        fn = c["fn"]
        chk.count("fn:" + fn)
        chk.count("outcome:" + o[0])
        if c.get("malformed"):
            chk.count("malformed")
        if fn in ("torus_len", "torus_path"):
            chk.count("torus:thin(w or h <= 2)" if min(c["w"], c["h"]) <= 2 else "torus:w,h >= 3")
            if fn == "torus_path" and o[0] == "ok":
                chk.count("torus_path:spiral-draw" if o[1]["requests"] else "torus_path:no-spiral-draw")
        if c.get("wform"):
            chk.count("numpy-size:" + c["wform"])
        if c.get("big"):
            chk.count("big-numbers(>=2^53):" + fn)
        for k_, f_ in sorted(c.get("forms", {}).items()):
            chk.count("container:" + f_)
        if "hist" in c:
            chk.count("in-history:" + fn)
            if c.get("form", "tuple") not in ("tuple", "list"):
                chk.count("in-history:one-shot-iterable-argument")
            if c.get("then"):
                chk.count("in-history:result-then-mutated-by-caller")
        chk.note_case({k: c[k] for k in c if k not in ("a", "b", "nomodel", "replay_history")}, nontrivial(c, o))
        why = oracle(c, o, D)
        if c.get("regression") == "float-key" and why:
            why = ("torus-path-float-key-rounds-up", why[1])
        if why:
            nrep[why[0]] = nrep.get(why[0], 0) + 1
            if nrep[why[0]] <= 3:
                chk.fail_input(why[0], why[1], dict(case=c, observed=o))
    for fn in ("torus_path", "ldf", "hex", "hexprefix"):
        if fn in state["sampled"]:
            continue
        for c, o in zip(cases, outs):
            if c["fn"] == fn and nontrivial(c, o):
                chk.sample(dict(case={k: v for k, v in c.items() if k != "replay_history"}, implementation=o if not fn.startswith("hex") else ["ok", "%d chips" % len(o[1])]))
                state["sampled"].add(fn)
                break
    if not chk.model_ok or state["model_error"]:
        return
    try:
        by_fn = {}
        for i, c in enumerate(cases):
            if not c.get("nomodel"):
                by_fn.setdefault(c["fn"], []).append(i)
        exprs, groups = [], []
        for fn, idxs in sorted(by_fn.items()):
            step = {"ldf": 25, "hex": 2, "hexprefix": 2, "links": 1, "torus_path": 60}.get(fn, 120)
            for j in range(0, len(idxs), step):
                g = idxs[j:j + step]
                exprs.append(vlist(coq_expr(cases[i], outs[i]) for i in g))
                groups.append(g)
        if not exprs:
            return
        try:
            vals = chk.coq_eval(HEADER, exprs, shard=12, name="cases%d" % chk.evaluations)
        except RuntimeError:
            # one retry with smaller files: on the shared machine a coqc is occasionally killed for lack
            # of memory; a genuine evaluation failure fails again and is reported
            vals = chk.coq_eval(HEADER, exprs, shard=4, name="retry%d" % chk.evaluations)
        for g, vs in zip(groups, vals):
            if len(vs) != len(g):
                raise RuntimeError("model printed %d values for %d cases" % (len(vs), len(g)))
            for i, v in zip(g, vs):
                chk.traces_validated += 1
                m, im = canon_model(cases[i], v), canon_impl(cases[i], outs[i])
                if m != im:
                    state["bad"] += 1
                    if state["bad"] <= 3:
                        chk.disagree("%s: model %s, implementation %s" % (cases[i]["fn"], str(m)[:300], str(im)[:300]),
                                     dict(case=cases[i], observed=outs[i]))
    except RuntimeError as e:
        state["model_error"] = str(e)


# ------------------------------------------------------------------ the check
def run(chk, args):
    chk.trusted += ["random.random() returns k/2**53 with 0 <= k < 2**53 (CPython's generator); IEEE double addition "
                    "as modelled by fadd53 (round to nearest even) for |magnitude| < 2**53",
                    "Python tuple comparison (lexicographic), min() keeps the first minimal element, sorted() is "
                    "stable also with reverse=True"]
    chk.assumptions += ["coordinates, widths and heights are Python ints; width, height >= 1 (0 raises "
                        "ZeroDivisionError: modelled as OtherError, outside the property)",
                        "concentric_hexagons: radius >= 0",
                        "longest_dimension_first: vector is a 3-tuple; width/height None or >= 1"]
    chk.regenerate(UNITS)
    chk.prove()
    D = Dist()
    state = dict(nrep={}, bad=0, sampled=set(), model_error=None)
    if args.replay:
        rp = json.load(open(args.replay))
        cases = [f["replay"]["case"] for f in rp.get("failures", []) if "case" in f.get("replay", {})]
        cases += [b["replay"]["case"] for b in rp.get("no_longer_checks", []) if "case" in b.get("replay", {})]
        cases = [dict(fn="history", ops=c["replay_history"]) if "replay_history" in c else c for c in cases]
        process(chk, D, state, cases, run_impl(chk, cases))
    else:
        batches = gen_phase1(chk)
        if chk.tier == "quick":
            batches = [[c for b in batches for c in b]]
        first = True
        for cases in batches:
            if first:
                corpus = os.path.join(lib.VERIF, "corpus", "C11.json")
                if os.path.exists(corpus):
                    cases = json.load(open(corpus)) + cases
                first = False
            outs = run_impl(chk, cases)
            more = gen_phase2(chk, cases, outs)
            if more:
                cases = cases + more
                outs = outs + run_impl(chk, more)
            process(chk, D, state, cases, outs)
    if chk.model_ok:
        if state["model_error"]:
            chk.oblige("correspondence:model-evaluates", False, state["model_error"])
        elif not state["bad"]:
            chk.oblige("correspondence:geometry (%d cases: lengths, vectors, randint requests, walks, link tables, "
                       "hexagon lists equal)" % chk.traces_validated, True)
    chk.coverage["exhaustive"] = False
    chk.coverage["rule"] = (
        "all ordered pairs of chips on every torus w x h with 1 <= w, h <= %d and every finite mesh up to 4 x 4 (6 x 6 in the thorough tier) (three-axis "
        "representation shifted by a random k in [-3,3]; shortest_torus_path under scripted random(): random "
        "numerators, 'prefer approach i' (k_i = 0, others 2^53-1) and all-equal draws; randint scripted), "
        "random pairs on %d larger tori up to 255 x 255 of which 4 in 5 are 1 x N, N x 2, 2 x N, N x {1,3,4}, "
        "random mesh pairs with coordinates in [-90, 90], random and router-produced vectors walked "
        "longest-dimension-first with width/height None or 1..9, one exhaustive link-table case "
        "(from_vector on [-5,5]^2, wrap-around collapse on every torus 3..6 x 3..6), concentric_hexagons for every "
        "radius 0..%d; a big-number stream (tori with one dimension up to 2^60 and the other <= 7, components beyond "
        "2^53, each approach preferred and both ends of the spiral randint forced; distance by the least "
        "lattice translate, which is compared with BFS on every graph that is searched); a container stream "
        "(coordinates as list / numpy int64 / int32 arrays / table rows / tuples of numpy scalars / mixtures to "
        "every function); histories of calls in one interpreter (hexagon generators abandoned / suspended inside a "
        "ring nobody walked before, interleaved generators, arguments as tuple / list / generator / map / "
        "iterator, returned lists modified in place by the caller before the next call), every call judged "
        "on its own; malformed stream: zero width/height.  BFS on the explicit graph decides every output.  "
        "non-trivial = source and destination chips differ (paths), >= 2 hops (walks), radius >= 1 (hexagons); "
        "distinct by hash of the whole input including the scripted draws"
        % (6 if chk.tier == "quick" else 13, 10 if chk.tier == "quick" else 60, 8 if chk.tier == "quick" else 25))
