#!/usr/bin/env python3
"""GenRegionsFill: how the (region, core mask) pairs of compress_flood_fill_regions reach the wire, from the SOURCE
TEXT of rig/machine_control/machine_controller.py and consts.py (nothing is imported).  Fail closed.

Checked shape (any other shape is Unsupported = a broken translation obligation):
  MachineController.flood_fill_aplx : the whole body, statement by statement (in particular: per application the
      pairs are `regions.compress_flood_fill_regions(targets)` of the caller's targets object, computed once,
      nothing else reads `targets`/`application_map` before, and `for region, cores in fills:
      self._send_ffcs(region, cores, fr)` between the start and the data/end packets);
  MachineController._send_ffcs : arg1 = NNCommands.flood_fill_core_select << 24 | core_mask; arg2 = region;
      self._send_scp(255, 255, 0, SCPCommands.nearest_neighbour_packet, arg1, arg2, fr);
  MachineController.load_application : the statements that build the targets of the re-load fill
      (per chip a fresh set of the cores whose cpu_state is not AppState.wait; chips with none are dropped).
Emitted: ffcs_arg1 core_mask, ffcs_arg2 region (translated with py2v's expression translator),
  nn_flood_fill_core_select, scp_nearest_neighbour_packet, app_state_wait (enum values read from the class bodies)."""
import ast
import os
import sys

sys.path.insert(0, os.path.dirname(os.path.abspath(__file__)))
import py2v  # noqa: E402

REPO = os.environ.get("RIG_REPO", "/repo")
MC = "rig/machine_control/machine_controller.py"
CONSTS = "rig/machine_control/consts.py"
U = py2v.Unsupported


def is_doc(n):
    return isinstance(n, ast.Expr) and isinstance(n.value, ast.Constant) and isinstance(n.value.value, str)


def stmts(f):
    return [ast.unparse(s) for s in f.body if not is_doc(s)]


def enum_value(tree, cls, member):
    c = [n for n in tree.body if isinstance(n, ast.ClassDef) and n.name == cls]
    if len(c) != 1:
        raise U("class %s not found in consts.py" % cls)
    hits = [s for s in c[0].body if isinstance(s, ast.Assign) and len(s.targets) == 1
            and isinstance(s.targets[0], ast.Name) and s.targets[0].id == member]
    if len(hits) != 1 or not (isinstance(hits[0].value, ast.Constant) and type(hits[0].value.value) is int):
        raise U("%s.%s is not a single integer literal" % (cls, member))
    return hits[0].value.value


def expect(name, got, want):
    if got != want:
        for i, (g, w) in enumerate(zip(got + ["<end>"] * len(want), want + ["<end>"] * len(got))):
            if g != w:
                raise U("%s: statement %d is\n%s\nthe model was written for\n%s" % (name, i + 1, g, w))
        raise U("%s: statements changed" % name)


FLOOD_FILL_APLX = [
    "application_map = {}",
    None,       # the 1-or-2 positional arguments coercion (checked below)
    "app_id = kwargs.pop('app_id')",
    "flags = 0",
    "if kwargs.pop('wait'):\n    flags |= AppFlags.wait",
    "fr = NNConstants.forward << 8 | NNConstants.retry",
    "for (aplx, targets) in iteritems(application_map):\n"
    "    fills = regions.compress_flood_fill_regions(targets)\n"
    "    with open(aplx, 'rb') as f:\n"
    "        aplx_data = f.read()\n"
    "    n_blocks = (len(aplx_data) + self.scp_data_length - 1) // self.scp_data_length\n"
    "    pid = self._get_next_nn_id()\n"
    "    self._send_ffs(pid, n_blocks, fr)\n"
    "    for (region, cores) in fills:\n"
    "        self._send_ffcs(region, cores, fr)\n"
    "    base_address = self.read_struct_field('sv', 'sdram_sys', 255, 255)\n"
    "    self._send_ffd(pid, aplx_data, base_address)\n"
    "    self._send_ffe(pid, app_id, flags, fr)",
]
COERCE_PREFIX = ("if len(args) == 1:\n    application_map = args[0]\nelif len(args) == 2:\n"
                 "    application_map = {args[0]: args[1]}\nelse:\n    raise TypeError(")
RELOAD = ("for (app_name, targets) in iteritems(unloaded):\n"
          "    unloaded_targets = {}\n"
          "    for ((x, y), cores) in iteritems(targets):\n"
          "        unloaded_cores = set()\n"
          "        for p in cores:\n"
          "            state = consts.AppState(self.read_vcpu_struct_field('cpu_state', x, y, p))\n"
          "            if state is not consts.AppState.wait:\n"
          "                unloaded_cores.add(p)\n"
          "        if len(unloaded_cores) > 0:\n"
          "            unloaded_targets[x, y] = unloaded_cores\n"
          "    if len(unloaded_targets) > 0:\n"
          "        new_unloadeds[app_name] = unloaded_targets")


def norm(s):
    """ast.unparse differs between Python versions in the parentheses of tuple targets / subscripts."""
    return (s.replace("for aplx, targets in", "for (aplx, targets) in").replace("for region, cores in", "for (region, cores) in")
            .replace("for app_name, targets in", "for (app_name, targets) in").replace("for (x, y), cores in", "for ((x, y), cores) in")
            .replace("unloaded_targets[(x, y)]", "unloaded_targets[x, y]"))


def main():
    with open(os.path.join(REPO, MC)) as f:
        tree = ast.parse(f.read())
    with open(os.path.join(REPO, CONSTS)) as f:
        ctree = ast.parse(f.read())
    out = ["(* GENERATED by tools/dump_c12f.py from the current source text of %s and %s -- do not edit. *)" % (MC, CONSTS),
           "From Coq Require Import ZArith Bool.", "Open Scope Z_scope.", ""]
    for cls, member, coq in (("NNCommands", "flood_fill_core_select", "nn_flood_fill_core_select"),
                             ("SCPCommands", "nearest_neighbour_packet", "scp_nearest_neighbour_packet"),
                             ("AppState", "wait", "app_state_wait")):
        out.append("Definition %s : Z := (%d).\n" % (coq, enum_value(ctree, cls, member)))

    # ---- _send_ffcs
    ffcs = py2v.find_function(tree, "MachineController._send_ffcs")
    if [a.arg for a in ffcs.args.args] != ["self", "region", "core_mask", "fr"] or ffcs.decorator_list:
        raise U("_send_ffcs: signature changed")
    expect("_send_ffcs", stmts(ffcs),
           ["arg1 = NNCommands.flood_fill_core_select << 24 | core_mask", "arg2 = region",
            "self._send_scp(255, 255, 0, SCPCommands.nearest_neighbour_packet, arg1, arg2, fr)"])
    body = [s for s in ffcs.body if not is_doc(s)]

    class Enum(ast.NodeTransformer):
        def visit_Attribute(self, node):
            if ast.unparse(node) == "NNCommands.flood_fill_core_select":
                return ast.copy_location(ast.Name(id="nn_flood_fill_core_select", ctx=ast.Load()), node)
            raise U("_send_ffcs: unexpected attribute " + ast.unparse(node))
    for coq, st, param in (("ffcs_arg1", body[0], "core_mask"), ("ffcs_arg2", body[1], "region")):
        e = Enum().visit(st.value)
        ast.fix_missing_locations(e)
        text, typ = py2v.Fn(None, dict(name="_send_ffcs"), {}).expr(e)
        if typ != "Z":
            raise U("_send_ffcs: %s is not an integer expression" % coq)
        out.append("(* %s : MachineController._send_ffcs, line %d *)\nDefinition %s (%s : Z) : Z :=\n  %s.\n"
                   % (MC, st.lineno, coq, param, text))

    # ---- flood_fill_aplx
    ffa = py2v.find_function(tree, "MachineController.flood_fill_aplx")
    if [ast.unparse(d) for d in ffa.decorator_list] != ["ContextMixin.use_contextual_arguments(app_id=Required, wait=True)"] \
            or ast.unparse(ffa.args) != "self, *args, **kwargs":
        raise U("flood_fill_aplx: decorator or signature changed")
    got = [norm(s) for s in stmts(ffa)]
    if len(got) >= 2 and got[1].startswith(COERCE_PREFIX):
        got[1] = None
    expect("flood_fill_aplx", got, FLOOD_FILL_APLX)

    # ---- load_application: the targets of the re-load fill
    la = py2v.find_function(tree, "MachineController.load_application")
    loops = [norm(ast.unparse(n)) for n in ast.walk(la) if isinstance(n, ast.For)
             and norm(ast.unparse(n.target)) in ("(app_name, targets)",)]
    if loops != [RELOAD]:
        raise U("load_application: the loop that builds the targets of the re-load fill is\n%s\nthe model was written for\n%s"
                % ("\n".join(loops), RELOAD))
    calls = [ast.unparse(n) for n in ast.walk(la) if isinstance(n, ast.Call) and ast.unparse(n.func) == "self.flood_fill_aplx"]
    if calls != ["self.flood_fill_aplx(unloaded, app_id=app_id, wait=True)"]:
        raise U("load_application: flood_fill_aplx is called as %r" % calls)
    assigns = sorted(ast.unparse(n) for n in ast.walk(la) if isinstance(n, ast.Assign)
                     and any(isinstance(t, ast.Name) and t.id == "unloaded" for t in n.targets))
    if assigns != ["unloaded = application_map", "unloaded = new_unloadeds", "unloaded = {}"]:
        raise U("load_application: `unloaded` is assigned by %r" % assigns)
    sys.stdout.write("\n".join(out))


if __name__ == "__main__":
    try:
        main()
    except py2v.Unsupported as e:
        sys.stderr.write("Unsupported: %s\n" % e)
        sys.stdout.write("Unsupported: %s\n" % e)
        sys.exit(2)
