(* The bit layer of C12: the shift/mask expressions translated from regions.py (Generated/GenRegions.v)
   against the division/remainder reading of a region word (Spec/Regions.v).  These are statements
   over the finite space x, y < 256, level <= 3; each is proved by evaluating a boolean check over
   the whole space with vm_compute, the bound being part of the statement. *)
From Coq Require Import ZArith List Bool Lia.
Require Import Rig.Generated.GenRegions Rig.Model.Base Rig.Model.Regions Rig.Spec.Regions.
Import ListNotations.
Open Scope Z_scope.

Definition zrange (n : nat) : list Z := map Z.of_nat (seq 0 n).

Lemma in_zrange : forall n z, 0 <= z < Z.of_nat n -> In z (zrange n).
Proof.
  intros n z Hz. unfold zrange.
  replace z with (Z.of_nat (Z.to_nat z)) by lia.
  apply in_map. apply in_seq. lia.
Qed.

Lemma forallb_zrange : forall n f z, forallb f (zrange n) = true -> 0 <= z < Z.of_nat n -> f z = true.
Proof.
  intros n f z Hf Hz. rewrite forallb_forall in Hf. apply Hf. apply in_zrange. exact Hz.
Qed.

(* the region word of chip (x, y) at level l, in digits: block corner, level, one sub-block bit *)
Definition expected_word (x y l : Z) : Z :=
  let s := sub_side l in
  ((x / (4 * s) * (4 * s)) * 256 + (y / (4 * s) * (4 * s)) + l) * 2 ^ 16
  + 2 ^ ((x / s) mod 4 + 4 * ((y / s) mod 4)).

Definition all_xyl (f : Z -> Z -> Z -> bool) : bool :=
  forallb (fun x => forallb (fun y => forallb (fun l => f x y l) (zrange 4)) (zrange 256)) (zrange 256).

Lemma all_xyl_spec : forall f, all_xyl f = true ->
  forall x y l, 0 <= x < 256 -> 0 <= y < 256 -> 0 <= l <= 3 -> f x y l = true.
Proof.
  intros f H x y l Hx Hy Hl. unfold all_xyl in H.
  pose proof (forallb_zrange 256 _ x H ltac:(simpl; lia)) as H1. cbv beta in H1.
  pose proof (forallb_zrange 256 _ y H1 ltac:(simpl; lia)) as H2. cbv beta in H2.
  exact (forallb_zrange 4 _ l H2 ltac:(simpl; lia)).
Qed.

(* --- get_region_for_chip --- *)
Lemma region_for_chip_check :
  all_xyl (fun x y l => get_region_for_chip x y l =? expected_word x y l) = true.
Proof. vm_cast_no_check (eq_refl true). Qed.

Lemma region_for_chip_digits : forall x y l, 0 <= x < 256 -> 0 <= y < 256 -> 0 <= l <= 3 ->
  get_region_for_chip x y l = expected_word x y l.
Proof.
  intros x y l Hx Hy Hl. apply Z.eqb_eq.
  exact (all_xyl_spec _ region_for_chip_check x y l Hx Hy Hl).
Qed.

(* --- the sub-region index of add_core, with the shift of a level-l node --- *)
Lemma subregion_index_check :
  all_xyl (fun x y l => subregion_index x y (tree_shift l)
                        =? (x / sub_side l) mod 4 + 4 * ((y / sub_side l) mod 4)) = true.
Proof. vm_cast_no_check (eq_refl true). Qed.

Lemma subregion_index_digits : forall x y l, 0 <= x < 256 -> 0 <= y < 256 -> 0 <= l <= 3 ->
  subregion_index x y (tree_shift l) = (x / sub_side l) mod 4 + 4 * ((y / sub_side l) mod 4).
Proof.
  intros x y l Hx Hy Hl. apply Z.eqb_eq.
  exact (all_xyl_spec _ subregion_index_check x y l Hx Hy Hl).
Qed.

(* --- the region code of a node whose base y has its two low bits clear --- *)
Lemma region_code_check :
  all_xyl (fun bx by_ l => negb (by_ mod 4 =? 0)
                           || (region_code bx by_ l =? (bx * 256 + by_ + l) * 2 ^ 16)) = true.
Proof. vm_cast_no_check (eq_refl true). Qed.

Lemma region_code_digits : forall bx by_ l, 0 <= bx < 256 -> 0 <= by_ < 256 -> 0 <= l <= 3 ->
  by_ mod 4 = 0 -> region_code bx by_ l = (bx * 256 + by_ + l) * 2 ^ 16.
Proof.
  intros bx by_ l Hx Hy Hl Hm.
  pose proof (all_xyl_spec _ region_code_check bx by_ l Hx Hy Hl) as H. cbv beta in H.
  apply orb_true_iff in H. destruct H as [H | H].
  - apply negb_true_iff in H. apply Z.eqb_neq in H. contradiction.
  - apply Z.eqb_eq. exact H.
Qed.

(* --- scale and shift of each level --- *)
Lemma tree_scale_digits : forall l, 0 <= l <= 3 -> tree_scale l = 4 * sub_side l.
Proof.
  intros l Hl. assert (l = 0 \/ l = 1 \/ l = 2 \/ l = 3) as [-> | [-> | [-> | ->]]] by lia;
    reflexivity.
Qed.
