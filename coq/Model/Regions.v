(* Executable model of rig/machine_control/regions.py: RegionCoreTree (add_core,
   get_regions_and_coremasks) and compress_flood_fill_regions.  Definitions only; the proofs are in
   Proofs/Regions*.v.

   Every integer expression of the code (range check, sub-region index, `|=`, the "full" test, the
   region code, scale, shift, the order in which children are visited, the sizes 18 and 16) is NOT
   written here: it is regenerated from the source text on every run (Generated/GenRegions.v).  What is
   hand-written is the control flow around them and the data structure:

   * a RegionCoreTree of level l is a [tree (3 - l)]: the index is the HEIGHT of the node, so a level-3
     node ([tree 0]) has no `subregions` attribute and a level-l node (l < 3) has a list of optional
     children of level l+1, exactly like the Python object (whose `level` attribute is 3 - height:
     children are created with `self.level + 1`);
   * `locally_selected` (array('H') of 18 entries) is a list of Z;
   * the dict `subregions_cores` is an association list in insertion order; `sorted` is an insertion
     sort for the lexicographic order on pairs of integers (for a total order in which ties are equal
     values every sorting algorithm gives the same list);
   * the float expression `int(self.base_x + (self.scale / 4) * (subregion % 4))` is the integer
     `base_x + (scale / 4) * (subregion mod 4)` (scale is a power of 4, >= 4: the division is exact
     and all values are far below 2^53). *)
From Coq Require Import ZArith List Bool.
Require Import Rig.Generated.GenRegions Rig.Model.Base.
Import ListNotations.
Open Scope Z_scope.

(* ---------------------------------------------------------------- lists indexed by Python ints *)
Definition znth {A} (i : Z) (l : list A) (d : A) : A := nth (Z.to_nat i) l d.

Fixpoint upd {A} (i : nat) (v : A) (l : list A) : list A :=
  match l, i with
  | [], _ => []
  | _ :: r, O => v :: r
  | a :: r, S j => a :: upd j v r
  end.
Definition zupd {A} (i : Z) (v : A) (l : list A) : list A := upd (Z.to_nat i) v l.

(* ---------------------------------------------------------------- the tree *)
Record node (K : Type) : Type := mkNode {
  t_bx : Z;                 (* self.base_x *)
  t_by : Z;                 (* self.base_y *)
  t_sel : list Z;           (* self.locally_selected *)
  t_subs : K }.             (* self.subregions (absent at level 3) *)
Arguments mkNode {K}.
Arguments t_bx {K}.
Arguments t_by {K}.
Arguments t_sel {K}.
Arguments t_subs {K}.

Fixpoint kids (n : nat) : Type :=
  match n with
  | O => unit
  | S k => list (option (node (kids k)))
  end.
Definition tree (n : nat) : Type := node (kids n).

(* self.level of a node of height n *)
Definition level_of (n : nat) : Z := 3 - Z.of_nat n.

Definition set_sel {K} (t : node K) (s : list Z) : node K := mkNode (t_bx t) (t_by t) s (t_subs t).
Definition set_subs {K} (t : node K) (s : K) : node K := mkNode (t_bx t) (t_by t) (t_sel t) s.

(* RegionCoreTree(base_x, base_y, level = 3 - n) *)
Definition new_tree (n : nat) (bx by_ : Z) : tree n :=
  mkNode bx by_ (repeat 0 (Z.to_nat n_cores))
         (match n return kids n with
          | O => tt
          | S k => repeat None (Z.to_nat n_children)
          end).

(* the final `if self.locally_selected[p] == 0xffff and self.level != 0:` of add_core *)
Definition finish {K} (level : Z) (t : node K) (p : Z) : node K * bool :=
  if add_core_is_full (znth p (t_sel t) 0) level
  then (set_sel t (zupd p 0 (t_sel t)), true)
  else (t, false).

(* add_core.  [Failed 0] = ValueError; [OtherError] = IndexError on locally_selected[p] (cannot
   happen while n_cores = 18 and the range check refuses p > 17; it is here so that the model does not
   silently ignore an index outside the array). *)
Fixpoint add_core (n : nat) : tree n -> Z -> Z -> Z -> result (tree n * bool) :=
  match n return tree n -> Z -> Z -> Z -> result (tree n * bool) with
  | O => fun t x y p =>
      let level := level_of O in
      if add_core_out_of_range x y p (t_bx t) (t_by t) (tree_scale level) then Failed 0
      else if Z.of_nat (length (t_sel t)) <=? p then OtherError
      else
        let sub := subregion_index x y (tree_shift level) in
        let t1 := set_sel t (zupd p (add_core_select (znth p (t_sel t) 0) sub) (t_sel t)) in
        Ok (finish level t1 p)
  | S k => fun t x y p =>
      let level := level_of (S k) in
      let scale := tree_scale level in
      if add_core_out_of_range x y p (t_bx t) (t_by t) scale then Failed 0
      else if Z.of_nat (length (t_sel t)) <=? p then OtherError
      else
        let sub := subregion_index x y (tree_shift level) in
        bind (if add_core_not_selected (znth p (t_sel t) 0) sub then
                let child : tree k :=
                  match znth sub (t_subs t) None with
                  | Some c => c
                  | None => new_tree k (t_bx t + (scale / 4) * (sub mod 4))
                                       (t_by t + (scale / 4) * (sub / 4))
                  end in
                bind (add_core k child x y p) (fun r =>
                  let t1 : tree (S k) := set_subs t (zupd sub (Some (fst r)) (t_subs t)) in
                  Ok (if snd r
                      then set_sel t1 (zupd p (add_core_select (znth p (t_sel t1) 0) sub) (t_sel t1))
                      else t1))
              else Ok t)
             (fun t2 => Ok (finish level t2 p))
  end.

(* ---------------------------------------------------------------- sorted() on pairs of ints *)
Definition pair_leb (a b : Z * Z) : bool :=
  (fst a <? fst b) || ((fst a =? fst b) && (snd a <=? snd b)).

Fixpoint insert_sorted (a : Z * Z) (l : list (Z * Z)) : list (Z * Z) :=
  match l with
  | [] => [a]
  | b :: r => if pair_leb a b then a :: l else b :: insert_sorted a r
  end.

Definition py_sorted (l : list (Z * Z)) : list (Z * Z) := fold_right insert_sorted [] l.

(* ---------------------------------------------------------------- get_regions_and_coremasks *)
(* subregions_cores[k] |= v   on a defaultdict(lambda: 0) *)
Fixpoint dict_or (k v : Z) (d : list (Z * Z)) : list (Z * Z) :=
  match d with
  | [] => [(k, Z.lor 0 v)]
  | (k', v') :: r => if k =? k' then (k', Z.lor v' v) :: r else (k', v') :: dict_or k v r
  end.

(* for core, subregions in enumerate(self.locally_selected): if subregions: d[subregions] |= 1 << core *)
Fixpoint group (core : Z) (sel : list Z) (d : list (Z * Z)) : list (Z * Z) :=
  match sel with
  | [] => d
  | m :: r => group (core + 1) r (if m =? 0 then d else dict_or m (Z.shiftl 1 core) d)
  end.

(* for (subregions, coremask) in sorted(d.items()): yield (region_code | subregions), coremask *)
Definition local_pairs (rc : Z) (sel : list Z) : list (Z * Z) :=
  map (fun e => (Z.lor rc (fst e), snd e)) (py_sorted (group 0 sel [])).

Fixpoint regions (n : nat) : tree n -> list (Z * Z) :=
  match n return tree n -> list (Z * Z) with
  | O => fun t => local_pairs (region_code (t_bx t) (t_by t) (level_of O)) (t_sel t)
  | S k => fun t =>
      local_pairs (region_code (t_bx t) (t_by t) (level_of (S k))) (t_sel t)
      ++ flat_map (fun i => match znth i (t_subs t) None with
                            | Some c => regions k c
                            | None => []
                            end) child_order
  end.

(* ---------------------------------------------------------------- compress_flood_fill_regions *)
Definition core : Type := (Z * Z * Z)%type.       (* (x, y, p) *)

(* the two nested loops of compress_flood_fill_regions, flattened: the cores in the order in which
   `for (x, y), cores in iteritems(targets): for p in cores:` meets them *)
Fixpoint add_all (n : nat) (t : tree n) (cs : list core) : result (tree n) :=
  match cs with
  | [] => Ok t
  | (x, y, p) :: r => bind (add_core n t x y p) (fun tb => add_all n (fst tb) r)
  end.

Definition compress (cs : list core) : result (list (Z * Z)) :=
  bind (add_all 3 (new_tree 3 0 0) cs) (fun t => Ok (py_sorted (regions 3 t))).

(* Direct use of the class, for the correspondence run: RegionCoreTree(level = 3 - n), a sequence of
   add_core calls (their return values are observed), then list(get_regions_and_coremasks()). *)
Fixpoint add_all_obs (n : nat) (t : tree n) (cs : list core) (acc : list bool)
  : result (tree n * list bool) :=
  match cs with
  | [] => Ok (t, rev acc)
  | (x, y, p) :: r => bind (add_core n t x y p) (fun tb => add_all_obs n (fst tb) r (snd tb :: acc))
  end.

Definition run_tree (n : nat) (cs : list core) : result (list bool * list (Z * Z)) :=
  bind (add_all_obs n (new_tree n 0 0) cs []) (fun r => Ok (snd r, regions n (fst r))).
