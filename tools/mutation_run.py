#!/usr/bin/env python3
"""Confirm a seeded change and run checks against it.

usage: tools/mutation_run.py <dir with patch.diff, demo.py, meta.json> <property id> [more property ids...]
 1. fresh worktree of /repo HEAD under /tmp, patch applied;
 2. the pinned baseline still passes there (all 475 stable tests);
 3. demo.py exits non-zero with the change and 0 on /repo;
 4. each named check is run with RIG_REPO=<worktree>; the VIOLATION lines are recorded;
 5. worktree and private Coq tree removed.
Prints a JSON summary (also stored as <dir>/result.json)."""
import json, os, subprocess, sys, shutil, hashlib, time
V = os.path.dirname(os.path.dirname(os.path.abspath(__file__)))
d = os.path.abspath(sys.argv[1]); props = sys.argv[2:]
wt = "/tmp/mw-" + hashlib.sha1(d.encode()).hexdigest()[:8]
def sh(cmd, **kw):
    p = subprocess.run(cmd, shell=True, stdout=subprocess.PIPE, stderr=subprocess.STDOUT, universal_newlines=True, **kw)
    return p.returncode, p.stdout
subprocess.run("git -C /repo worktree remove --force %s 2>/dev/null; rm -rf %s" % (wt, wt), shell=True)
rc, out = sh("git -C /repo worktree add -q --detach %s HEAD && git -C %s apply %s/patch.diff" % (wt, wt, d))
res = dict(dir=d, applied=(rc == 0), apply_log=out[-500:])
try:
    if rc == 0:
        rc, out = sh("python3 %s/tools/baseline.py %s" % (V, wt)); res["baseline_passes"] = (rc == 0); res["baseline"] = out.strip()[-300:]
        env = dict(os.environ, PYTHONHASHSEED="0")
        rc1, o1 = sh("cd %s && PYTHONPATH=%s timeout 600 /venv/bin/python demo.py" % (d, wt), env=env)
        rc0, o0 = sh("cd %s && PYTHONPATH=/repo timeout 600 /venv/bin/python demo.py" % d, env=env)
        res["demo_fails_with_change"] = (rc1 != 0); res["demo_passes_without"] = (rc0 == 0)
        res["demo_out_with_change"] = o1[-600:]
        res["checks"] = {}
        for p in props:
            t = time.time()
            rc, out = sh("cd %s && RIG_REPO=%s timeout 3000 ./check %s --tier quick" % (V, wt, p))
            lines = [l for l in out.splitlines() if l.startswith(("VIOLATION", "KNOWN-FINDING", p))]
            res["checks"][p] = dict(exit=rc, lines=lines, wall_s=round(time.time() - t, 1))
            rp = os.path.join(V, "replays", "%s-0.json" % p)
            if rc != 0 and os.path.exists(rp):
                r = json.load(open(rp)); res["checks"][p]["kind"] = r.get("kind")
                f = (r.get("failures") or r.get("no_longer_checks") or [{}])[0]
                res["checks"][p]["first"] = json.dumps(f, default=str)[:700]
finally:
    subprocess.run("git -C /repo worktree remove --force %s; rm -rf %s %s/work/coq-%s" % (
        wt, wt, V, hashlib.sha1(wt.encode()).hexdigest()[:8]), shell=True)
json.dump(res, open(os.path.join(d, "result.json"), "w"), indent=1)
print(json.dumps(res, indent=1))
