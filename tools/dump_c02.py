"""Shape of what the placer models rest on (ast only, nothing is imported).  Fail closed: anything not recognised is
Unsupported (a broken obligation).

 * rig/place_and_route/machine.py, class Machine: the inventory of its methods; `__contains__` for (x, y) is TRANSLATED
   to the Gallina function gen_machine_contains (Model/Place.v's `live` is defined through it, so every placer theorem is
   re-checked against the current text); `__getitem__`, `__setitem__`, `__iter__`, `copy`, `__init__` must have exactly
   the bodies the model mirrors (chip_res / mget / mset / raster; copy = a new Machine built from the same six
   attributes, each copied one level deep by __init__: independent containers, shared resource identifiers).
 * rig/place_and_route/place/{breadth_first,hilbert,rcm}.py: `place` forwards to sequential.place with the vertex and
   chip orders the model's entry points use; hilbert_chip_order computes int(ceil(log(max(w, h), 2.0))) (0 below 1);
   breadth_first_vertex_order has exactly the statements Model/BFOrder.v mirrors."""
import ast
import os
import sys

sys.path.insert(0, os.path.dirname(os.path.abspath(__file__)))
import dumplib as D  # noqa: E402

REPO = os.environ.get("PYTHONPATH", "/repo").split(os.pathsep)[0]


class Unsupported(Exception):
    pass


def need(cond, what):
    if not cond:
        raise Unsupported(what)


def dump(n):
    return ast.dump(n, annotate_fields=False)


def strip_doc(body):
    if body and isinstance(body[0], ast.Expr) and isinstance(body[0].value, ast.Constant) and isinstance(body[0].value.value, str):
        return body[1:]
    return body


def same(stmts, text, what):
    want = ast.parse(text).body
    need([dump(s) for s in stmts] == [dump(s) for s in want], "%s: body is not\n%s\nbut\n%s" % (
        what, text, ast.unparse(ast.Module(list(stmts), []))))


def func(container, name, what):
    fs = [n for n in container if isinstance(n, ast.FunctionDef) and n.name == name]
    need(len(fs) == 1, "%s: exactly one definition of %s expected" % (what, name))
    need(not fs[0].decorator_list, "%s.%s is decorated" % (what, name))
    return fs[0], strip_doc(fs[0].body)


def params(f):
    need(not f.args.vararg and not f.args.kwarg and not f.args.kwonlyargs, f.name + ": unexpected * / ** parameters")
    return [a.arg for a in f.args.args]


# ------------------------------------------------------------------ translation of the (x, y) branch of __contains__
def tr_contains(e):
    """0 <= x < self.width and 0 <= y < self.height and (x, y) not in self.dead_chips  ->  Gallina"""
    need(isinstance(e, ast.BoolOp) and isinstance(e.op, ast.And), "__contains__: a conjunction expected")
    return " && ".join(tr_conj(v) for v in e.values)


def tr_atom(n):
    if isinstance(n, ast.Constant) and type(n.value) is int:
        return D.z(n.value)
    if isinstance(n, ast.Name) and n.id in ("x", "y"):
        return n.id
    if isinstance(n, ast.Attribute) and isinstance(n.value, ast.Name) and n.value.id == "self" and n.attr in ("width", "height"):
        return {"width": "w", "height": "h"}[n.attr]
    raise Unsupported("__contains__: operand " + ast.unparse(n))


def tr_conj(c):
    need(isinstance(c, ast.Compare), "__contains__: comparison expected, got " + ast.unparse(c))
    if len(c.ops) == 1 and isinstance(c.ops[0], ast.NotIn):
        need(dump(c.left) == dump(ast.parse("(x, y)").body[0].value)
             and dump(c.comparators[0]) == dump(ast.parse("self.dead_chips").body[0].value),
             "__contains__: membership test is not `(x, y) not in self.dead_chips`")
        return "negb (dead (x, y))"
    parts, left = [], c.left
    for op, right in zip(c.ops, c.comparators):
        sym = {ast.LtE: "<=?", ast.Lt: "<?", ast.GtE: ">=?", ast.Gt: ">?", ast.Eq: "=?"}.get(type(op))
        need(sym is not None, "__contains__: comparison operator " + type(op).__name__)
        parts.append("(%s %s %s)" % (tr_atom(left), sym, tr_atom(right)))
        left = right
    return " && ".join(parts)


def main():
    out = [D.HEADER % "dump_c02.py", "From Coq Require Import Bool.\n"]
    # ---------------------------------------------------------------- Machine
    tree = ast.parse(open(os.path.join(REPO, "rig/place_and_route/machine.py")).read())
    cls = [n for n in tree.body if isinstance(n, ast.ClassDef) and n.name == "Machine"]
    need(len(cls) == 1, "class Machine not found")
    cls = cls[0]
    need(not cls.decorator_list and [dump(b) for b in cls.bases] == [dump(ast.parse("object").body[0].value)]
         and not cls.keywords, "class Machine has other bases / a metaclass / decorators")
    members = strip_doc(cls.body)
    need(all(isinstance(n, ast.FunctionDef) for n in members), "class Machine has members that are not plain methods")
    names = [n.name for n in members]
    expected = ["__init__", "copy", "__eq__", "__ne__", "issubset", "__contains__", "__getitem__", "__setitem__",
                "__iter__", "iter_links", "has_wrap_around_links"]
    need(names == expected, "Machine defines %r; the model was written for %r" % (names, expected))
    f, b = func(members, "__init__", "Machine")
    need(params(f) == ["self", "width", "height", "chip_resources", "chip_resource_exceptions", "dead_chips", "dead_links"],
         "Machine.__init__ parameters")
    same(b, "self.width = width\nself.height = height\nself.chip_resources = chip_resources.copy()\n"
            "self.chip_resource_exceptions = chip_resource_exceptions.copy()\nself.dead_chips = dead_chips.copy()\n"
            "self.dead_links = dead_links.copy()", "Machine.__init__")
    f, b = func(members, "copy", "Machine")
    need(params(f) == ["self"], "Machine.copy parameters")
    same(b, "return Machine(self.width, self.height, self.chip_resources, self.chip_resource_exceptions, "
            "self.dead_chips, self.dead_links)", "Machine.copy")
    f, b = func(members, "__contains__", "Machine")
    need(params(f) == ["self", "chip_or_link"], "Machine.__contains__ parameters")
    need(len(b) == 1 and isinstance(b[0], ast.If) and dump(b[0].test) == dump(ast.parse("len(chip_or_link) == 2").body[0].value)
         and len(b[0].body) == 2 and dump(b[0].body[0]) == dump(ast.parse("x, y = chip_or_link").body[0])
         and isinstance(b[0].body[1], ast.Return), "Machine.__contains__: the (x, y) branch has another shape")
    contains = tr_contains(b[0].body[1].value)
    contains_line = f.lineno
    f, b = func(members, "__getitem__", "Machine")
    need(params(f) == ["self", "xy"], "Machine.__getitem__ parameters")
    need(len(b) == 2 and isinstance(b[0], ast.If) and dump(b[0].test) == dump(ast.parse("xy not in self").body[0].value)
         and not b[0].orelse and len(b[0].body) == 1 and isinstance(b[0].body[0], ast.Raise)
         and isinstance(b[0].body[0].exc, ast.Call) and dump(b[0].body[0].exc.func) == dump(ast.parse("IndexError").body[0].value),
         "Machine.__getitem__: guard is not `if xy not in self: raise IndexError(...)`")
    same(b[1:], "return self.chip_resource_exceptions.get(xy, self.chip_resources)", "Machine.__getitem__")
    f, b2 = func(members, "__setitem__", "Machine")
    need(params(f) == ["self", "xy", "resources"], "Machine.__setitem__ parameters")
    need(len(b2) == 2 and dump(b2[0]) == dump(b[0]), "Machine.__setitem__: guard differs from __getitem__'s")
    same(b2[1:], "self.chip_resource_exceptions[xy] = resources", "Machine.__setitem__")
    f, b = func(members, "__iter__", "Machine")
    need(params(f) == ["self"], "Machine.__iter__ parameters")
    same(b, "for x in range(self.width):\n    for y in range(self.height):\n        if (x, y) in self:\n            yield (x, y)",
         "Machine.__iter__")
    out.append("(* rig/place_and_route/machine.py, Machine.__contains__ for a chip (x, y), line %d *)" % contains_line)
    out.append("Definition gen_machine_contains (w h : Z) (dead : Z * Z -> bool) (x y : Z) : bool :=\n  %s.\n" % contains)
    out.append(D.definition("gen_machine_methods", "list string", D.lst(D.string(n) for n in names)))
    out.append("(* __getitem__ = guard, then chip_resource_exceptions.get(xy, chip_resources); __setitem__ = the same guard,\n"
               "   then chip_resource_exceptions[xy] = resources; __iter__ = x-major raster of the chips in self;\n"
               "   copy() = Machine(<the six attributes>), __init__ copies each container one level deep *)")
    out.append(D.definition("gen_machine_shape_checked", "bool", "true"))
    # ---------------------------------------------------------------- rig/netlist.py, class Net
    ntree = ast.parse(open(os.path.join(REPO, "rig/netlist.py")).read())
    ncls = [n for n in ntree.body if isinstance(n, ast.ClassDef) and n.name == "Net"]
    need(len(ncls) == 1, "class Net not found")
    ncls = ncls[0]
    need(not ncls.decorator_list and [dump(b) for b in ncls.bases] == [dump(ast.parse("object").body[0].value)]
         and not ncls.keywords, "class Net has other bases / a metaclass / decorators")
    nmembers = strip_doc(ncls.body)
    need(all(isinstance(n, ast.FunctionDef) for n in nmembers) and [n.name for n in nmembers] == ["__init__", "__contains__", "__iter__"],
         "Net defines %r; expected __init__, __contains__, __iter__" % [getattr(n, "name", "?") for n in nmembers])
    f, b = func(nmembers, "__init__", "Net")
    need(params(f) == ["self", "source", "sinks", "weight"] and [dump(d) for d in f.args.defaults] == [dump(ast.Constant(1.0))],
         "Net.__init__ parameters")
    same(b, "self.source = source\nself.weight = weight\nif isinstance(sinks, list):\n    self.sinks = sinks[:]\n"
            "else:\n    self.sinks = [sinks]", "Net.__init__")
    f, b = func(nmembers, "__contains__", "Net")
    same(b, "return vertex == self.source or vertex in self.sinks", "Net.__contains__")
    f, b = func(nmembers, "__iter__", "Net")
    same(b, "yield self.source\nfor vertex in self.sinks:\n    yield vertex", "Net.__iter__")
    out.append("(* rig/netlist.py: Net(source, sinks, weight=1.0) copies a LIST of sinks and wraps anything else as the single\n"
               "   sink; iteration = source, then the sinks; membership = source or a sink *)")
    out.append(D.definition("gen_net_shape_checked", "bool", "true"))
    # the annealer ignores nets that are empty / singleton or not positively weighted
    atree = ast.parse(open(os.path.join(REPO, "rig/place_and_route/place/sa/algorithm.py")).read())
    filt = [n for n in ast.walk(atree) if isinstance(n, ast.Assign) and len(n.targets) == 1
            and isinstance(n.targets[0], ast.Name) and n.targets[0].id == "nets" and isinstance(n.value, ast.ListComp)]
    need(len(filt) == 1 and dump(filt[0]) == dump(ast.parse(
        "nets = [n for n in nets if len(set(n)) > 1 and n.weight > 0.0]").body[0]),
        "sa/algorithm.py: the net filter is not `[n for n in nets if len(set(n)) > 1 and n.weight > 0.0]`")
    out.append(D.definition("gen_sa_net_filter_positive_weights", "bool", "true"))
    # ---------------------------------------------------------------- the wrappers around sequential.place
    def module(path):
        return ast.parse(open(os.path.join(REPO, path)).read()).body
    bf = module("rig/place_and_route/place/breadth_first.py")
    f, b = func(bf, "place", "breadth_first")
    need(params(f) == ["vertices_resources", "nets", "machine", "constraints", "chip_order"]
         and [dump(d) for d in f.args.defaults] == [dump(ast.Constant(None))], "breadth_first.place parameters")
    same(b, "return sequential_place(vertices_resources, nets, machine, constraints, "
            "breadth_first_vertex_order(vertices_resources, nets), chip_order)", "breadth_first.place")
    # breadth_first_vertex_order: the statements Model/BFOrder.v mirrors (set choices are the model's oracles)
    f, b = func(bf, "breadth_first_vertex_order", "breadth_first")
    need(params(f) == ["vertices_resources", "nets"] and not f.args.defaults, "breadth_first_vertex_order parameters")
    same(b, "if len(vertices_resources) == 0:\n    return\n"
            "vertex_neighbours = defaultdict(set)\n"
            "for net in nets:\n"
            "    vertex_neighbours[net.source].update(net)\n"
            "    for sink in net.sinks:\n"
            "        vertex_neighbours[sink].update(net)\n"
            "unplaced_vertices = set(vertices_resources)\n"
            "vertex_queue = deque()\n"
            "while vertex_queue or unplaced_vertices:\n"
            "    if not vertex_queue:\n"
            "        vertex_queue.append(unplaced_vertices.pop())\n"
            "    vertex = vertex_queue.popleft()\n"
            "    yield vertex\n"
            "    vertex_queue.extend(v for v in vertex_neighbours[vertex] if v in unplaced_vertices)\n"
            "    unplaced_vertices.difference_update(vertex_neighbours[vertex])", "breadth_first_vertex_order")
    imp = [n for n in bf if isinstance(n, ast.ImportFrom) and n.module == "collections"]
    need(len(imp) == 1 and sorted((a.name, a.asname) for a in imp[0].names) == [("defaultdict", None), ("deque", None)],
         "breadth_first: deque / defaultdict are not collections' own")
    need(not any(isinstance(n, (ast.Assign, ast.AugAssign, ast.ClassDef)) for n in bf)
         and sorted(n.name for n in bf if isinstance(n, ast.FunctionDef)) == ["breadth_first_vertex_order", "place"],
         "breadth_first: module-level state or further definitions")
    out.append("(* breadth_first_vertex_order: neighbour sets = union of the member sets of the nets a vertex is in; loop =\n"
               "   pop from the set when the queue is empty, popleft, yield, extend by the unplaced neighbours, difference_update:\n"
               "   exactly Model/BFOrder.v's bf_loop with pick = set.pop and arr = set iteration order *)")
    out.append(D.definition("gen_bf_order_shape_checked", "bool", "true"))
    hil = module("rig/place_and_route/place/hilbert.py")
    f, b = func(hil, "place", "hilbert")
    need(params(f) == ["vertices_resources", "nets", "machine", "constraints", "breadth_first"]
         and [dump(d) for d in f.args.defaults] == [dump(ast.Constant(True))], "hilbert.place parameters")
    same(b, "return sequential_place(vertices_resources, nets, machine, constraints, "
            "(None if not breadth_first else breadth_first_vertex_order(vertices_resources, nets)), "
            "hilbert_chip_order(machine))", "hilbert.place")
    f, b = func(hil, "hilbert_chip_order", "hilbert")
    need(params(f) == ["machine"], "hilbert_chip_order parameters")
    same(b, "max_dimen = max(machine.width, machine.height)\n"
            "hilbert_levels = int(ceil(log(max_dimen, 2.0))) if max_dimen >= 1 else 0\n"
            "return hilbert(hilbert_levels)", "hilbert_chip_order")
    rc = module("rig/place_and_route/place/rcm.py")
    f, b = func(rc, "place", "rcm")
    need(params(f) == ["vertices_resources", "nets", "machine", "constraints"], "rcm.place parameters")
    same(b, "return sequential_place(vertices_resources, nets, machine, constraints, "
            "rcm_vertex_order(vertices_resources, nets), rcm_chip_order(machine))", "rcm.place")
    for mod, tree_ in (("breadth_first", bf), ("hilbert", hil), ("rcm", rc)):
        imp = [n for n in tree_ if isinstance(n, ast.ImportFrom) and n.module == "rig.place_and_route.place.sequential"]
        need(len(imp) == 1 and [(a.name, a.asname) for a in imp[0].names] == [("place", "sequential_place")],
             mod + ": sequential_place is not rig.place_and_route.place.sequential.place")
    imp = [n for n in hil if isinstance(n, ast.ImportFrom) and n.module == "rig.place_and_route.place.breadth_first"]
    need(len(imp) == 1 and [(a.name, a.asname) for a in imp[0].names] == [("breadth_first_vertex_order", None)],
         "hilbert: breadth_first_vertex_order is not rig.place_and_route.place.breadth_first's")
    out.append("(* breadth_first.place = sequential.place(..., breadth_first_vertex_order(vr, nets), chip_order);\n"
               "   hilbert.place = sequential.place(..., None | breadth_first_vertex_order(vr, nets), hilbert_chip_order(machine));\n"
               "   rcm.place = sequential.place(..., rcm_vertex_order(vr, nets), rcm_chip_order(machine));\n"
               "   hilbert_chip_order(machine) = hilbert(int(ceil(log(max(w, h), 2.0))) if max(w, h) >= 1 else 0) *)")
    out.append(D.definition("gen_place_wrappers_forward_to_sequential", "bool", "true"))
    print("\n".join(out))


if __name__ == "__main__":
    try:
        main()
    except Unsupported as e:
        sys.stderr.write("Unsupported: %s\n" % e)
        sys.exit(2)
