"""C17 -- library calls neither modify their arguments nor remember earlier calls.

(a) proof part: the inventory of every carrier of cross-call state in rig/ is regenerated from the source
    (tools/dump_c17.py, an ast scan) into Generated/GenSharedState.v; Props/C17.v proves that every carrier
    is accounted for by the model of library state (Model/LibState.v) and that every modelled call returns
    the same result from every reachable library state.
(b) differential part: every argument of every call is snapshotted (deep, structural) before and after the
    real call; a probe call made after a random history of other calls must equal the same probe made first
    in a fresh interpreter (same seed)."""
import json
import lib
import pnr_gen

LEVEL = "proof"
UNITS = ["GenSharedState"]
PLACERS = ["sequential", "hilbert", "rcm", "breadth_first", "rand", "sa_c", "sa_py"]


def gen_call(rng):
    k = rng.random()
    if k < 0.12:
        # object reuse: one set of rig objects, a first mapping, the machine edited in place (enough dead links to
        # flip the wrap-around verdict now and then), then a second mapping on the same objects
        p = pnr_gen.gen_problem(rng, max_w=rng.choice([3, 4, 5]), max_h=rng.choice([3, 4, 5]), max_vertices=8)
        m = p["machine"]
        w, h = m["w"], m["h"]
        VEC = [(1, 0), (1, 1), (0, 1), (-1, 0), (-1, -1), (0, -1)]
        if rng.random() < 0.5:          # kill every wrap-around link: torus -> mesh
            edit = [[x, y, l] for x in range(w) for y in range(h) for l, (dx, dy) in enumerate(VEC)
                    if not (0 <= x + dx < w and 0 <= y + dy < h)]
        else:
            edit = [[rng.randrange(w), rng.randrange(h), rng.randrange(6)] for _ in range(rng.randint(1, 3))]
        spec = lambda: dict(placer=rng.choice(PLACERS), seed=rng.randint(0, 10 ** 6), target=rng.choice([None, 3]),
                            radius=rng.choice([0, 20]))
        return dict(kind="reuse", problem=p, first=spec(), edit_dead_links=edit, second=spec())
    if k < 0.6:
        return dict(kind="chain", problem=pnr_gen.gen_problem(rng), placer=rng.choice(PLACERS),
                    seed=rng.randint(0, 10 ** 6), target=rng.choice([None, None, 0, 2, 1024]),
                    radius=rng.choice([0, 1, 20]), callback=rng.choice([None, "keep", "edit"]),
                    vertex_order=rng.random() < 0.5, partial_alloc=rng.random() < 0.3)
    if k < 0.63:
        return gen_table_call(rng) if rng.random() < 0.5 else gen_wrapper_call(rng)
    if k < 0.68:
        n = rng.randint(1, 8)
        table = []
        for _ in range(n):
            mask = rng.choice([0xf, 0xe, 0xc, 0x7])
            table.append([[rng.randint(0, 5)] if rng.random() < 0.8 else [rng.randint(0, 5), rng.randint(6, 23)],
                          rng.randint(0, 15) & mask, mask])
        return dict(kind="covering", table=table, target=rng.choice([None, 0, 3]))
    if k < 0.78:
        nf = rng.randint(1, 4)
        tagset = lambda: rng.choice([None, "t", "u v", ["set", "S", ["t"]], ["set", "S", ["t"]], ["set", "T", ["w", "t"]]])
        fields = [["f%d" % i, rng.choice([None, 1, 2, 4]), None, tagset()] for i in range(nf)]
        values = [[f[0], rng.randint(0, (1 << (f[1] or 3)) - 1)] for f in fields]
        call = dict(kind="bitfield", length=rng.choice([8, 16, 32]), fields=fields, values=values)
        if rng.random() < 0.6:        # a second bit field given the same caller-owned tag sets; a child with a new tag
            call["second"] = [["g%d" % i, rng.choice([1, 2]), None, tagset()] for i in range(rng.randint(1, 3))]
            f0 = fields[0]
            call["children"] = [[f0[0], values[0][1], "child", 1, rng.choice(["z", ["set", "Z", ["z"]]])]]
        return call
    if k < 0.86:
        return dict(kind="controller", updates=[{"x": rng.randint(0, 7)}, {"app_id": rng.randint(1, 255)}][:rng.randint(0, 2)],
                    x=rng.randint(0, 7), y=rng.randint(0, 7), p=rng.randint(1, 17), **{"raise": rng.random() < 0.5},
                    edit_structs=rng.choice([0, 0, 1, 2, 5]),
                    bmp={"board": rng.randint(1, 23), "frame": rng.randint(0, 3)})
    if k < 0.96:
        return dict(kind="boot", preset=rng.choice([None, None, "spin3_boot_options", "spin5_boot_options"]),
                    options=rng.choice([{}, {}, {"hw_ver": 2}, {"led0": 0x1234}]),
                    overrides=rng.choice([None, None, {"hw_ver": 4}, {}]))
    return dict(kind="machine", cores=rng.randint(1, 17))


def gen_table_call(rng):
    """A direct call of one of the table minimisers on a table whose entries carry sources."""
    n = rng.randint(1, 7)
    table = []
    for _ in range(n):
        mask = rng.choice([0xf, 0xf, 0xe, 0xc, 0x7])
        link = rng.randint(0, 5)
        route = [rng.randint(0, 5)] if rng.random() < 0.8 else [rng.randint(0, 5), rng.randint(6, 23)]
        k = rng.random()
        sources = [None] if k < 0.4 else [(route[0] + 3) % 6] if k < 0.7 else [link] if k < 0.9 else [link, None]
        table.append([route, rng.randint(0, 15) & mask, mask, sources])
    table.sort(key=lambda e: bin(0xf & ~e[2]).count("1"))
    return dict(kind="tables", fn=rng.choice(["oc", "oc", "rdr", "minimise_table", "minimise_tables"]), table=table,
                target=rng.choice([None, None, 0, 3]))


def gen_wrapper_call(rng):
    """The two top-level wrappers, with every combination of their switches, constraints and keyword dictionaries
    either passed by the caller (then snapshotted) or left to the defaults (shared between calls)."""
    prob = pnr_gen.gen_problem(rng, max_w=4, max_h=4, max_vertices=6)
    return dict(kind="wrapper", which=rng.choice(["wrapper", "pnr"]), problem=prob,
                placer=rng.choice(PLACERS[:4]), seed=rng.randint(0, 10 ** 6),
                custom_cores=rng.random() < 0.35, reserve_monitor=rng.random() < 0.5, align_sdram=rng.random() < 0.6,
                give_constraints=rng.random() < 0.6, give_kwargs=rng.random() < 0.5, radius=rng.choice([1, 20]))


def perturb(rng, call):
    """A copy of `call` that differs from it in ONE component (a memo keyed on the other components only would
    return the answer of the wrong call)."""
    c = json.loads(json.dumps(call))
    if c["kind"] == "wrapper":
        what = rng.choice(["custom_cores", "custom_cores", "reserve_monitor", "align_sdram", "give_constraints", "give_kwargs",
                           "which", "radius"])
        if what == "which":
            c["which"] = "pnr" if c["which"] == "wrapper" else "wrapper"
        elif what == "radius":
            c["radius"] = 1 if c["radius"] == 20 else 20
        else:
            c[what] = not c[what]
        c["what"] = "wrapper-" + what
        return c
    if c["kind"] == "tables":
        what = rng.choice(["sources", "sources", "route", "key", "target", "fn", "drop"])
        e = rng.choice(c["table"])
        if what == "sources":
            for e in c["table"]:
                if rng.random() < 0.6:
                    e[3] = rng.choice([[None], [(e[0][0] + 3) % 6], [rng.randint(0, 5)]])
        elif what == "route":
            e[0] = [rng.randint(0, 5)]
        elif what == "key":
            e[1] = rng.randint(0, 15) & e[2]
        elif what == "target":
            c["target"] = rng.choice([None, 0, 2, 3, 1024])
        elif what == "fn":
            c["fn"] = rng.choice(["oc", "rdr", "minimise_table", "minimise_tables"])
        elif len(c["table"]) > 1:
            c["table"].remove(e)
        c["what"] = what
        return c
    p = c["problem"]
    m = p["machine"]
    VEC = [(1, 0), (1, 1), (0, 1), (-1, 0), (-1, -1), (0, -1)]
    # the parts of a Machine are what a cache key most plausibly leaves out: they get most of the weight
    what = rng.choice(["grow"] * 3 + ["shrink"] * 2 + ["dead_links"] * 3 + ["mesh"] * 2 + ["no_dead_links"] * 2
                      + ["dead_chip"] * 2 + ["cores", "exc", "vres", "weight", "sinks", "keys", "cons", "seed", "target", "radius"])
    pinned = [tuple(x[2]) for x in p["constraints"] if x[0] == "location"]
    if what == "grow":
        m["w"] += rng.randint(0, 5)
        m["h"] += rng.randint(0 if m["w"] != call["problem"]["machine"]["w"] else 1, 5)
    elif what == "shrink":
        need = [max([1] + [q[i] + 1 for q in pinned] + [d[i] + 1 for d in m["dead_chips"]]
                    + [e[0][i] + 1 for e in m["exc"]] + [d[i] + 1 for d in m["dead_links"]]) for i in (0, 1)]
        m["w"], m["h"] = max(need[0], m["w"] // 2), max(need[1], m["h"] // 2)
    elif what == "dead_links":
        for _ in range(rng.randint(1, 4)):
            d = [rng.randrange(m["w"]), rng.randrange(m["h"]), rng.randrange(6)]
            if d not in m["dead_links"]:
                m["dead_links"].append(d)
    elif what == "mesh":
        for x in range(m["w"]):
            for y in range(m["h"]):
                for l, (dx, dy) in enumerate(VEC):
                    if not (0 <= x + dx < m["w"] and 0 <= y + dy < m["h"]) and [x, y, l] not in m["dead_links"]:
                        m["dead_links"].append([x, y, l])
    elif what == "no_dead_links":
        ends = [[x[2][0], x[2][1]] for x in p["constraints"] if x[0] == "location"]
        m["dead_links"] = [d for d in m["dead_links"] if d[:2] in ends]
    elif what == "dead_chip":
        free = [[x, y] for x in range(m["w"]) for y in range(m["h"])
                if (x, y) not in pinned and [x, y] not in m["dead_chips"] and (x, y) != (0, 0)]
        if free:
            m["dead_chips"].append(rng.choice(free))
    elif what == "cores":
        m["cores"] = rng.choice([x for x in [2, 3, 5, 18] if x != m["cores"]])
    elif what == "exc":
        xy = [rng.randrange(m["w"]), rng.randrange(m["h"])]
        m["exc"] = [e for e in m["exc"] if e[0] != xy] + [[xy, dict(cores=rng.randint(1, 18), sdram=rng.choice([1000, 5000]))]]
    elif what == "vres":
        v = rng.choice(p["vertices"])
        v["cores"] = rng.choice([x for x in [0, 1, 2] if x != v["cores"]]) if not any(
            x[0] == "endpoint" and x[1] == v["id"] for x in p["constraints"]) else v["cores"]
        v["sdram"] = rng.choice([0, 10, 100, 200])
    elif what == "weight" and p["nets"]:
        n = rng.choice(p["nets"])
        n["weight"] = rng.choice([x for x in [1.0, 2.0, 0.5, 4.0, 0.1, 0.7] if x != n["weight"]])
    elif what == "sinks" and p["nets"]:
        n = rng.choice(p["nets"])
        ids = [v["id"] for v in p["vertices"]]
        n["sinks"] = [rng.choice(ids) for _ in range(rng.randint(1, min(4, len(ids))))]
    elif what == "keys" and p["keys"]:
        sh = rng.choice([1, 2, 4])
        p["keys"] = [[(k << sh) & 0xffffffff, (mk << sh) & 0xffffffff] for k, mk in p["keys"]]
        if len(set(map(tuple, p["keys"]))) != len(p["keys"]) or any(mk == 0 for _, mk in p["keys"]):
            p["keys"] = call["problem"]["keys"]
    elif what == "cons":
        droppable = [x for x in p["constraints"] if x[0] in ("reserve", "samechip")]
        if droppable and rng.random() < 0.6:
            p["constraints"].remove(rng.choice(droppable))
        else:
            p["constraints"].append(["reserve", "cores", 0, rng.randint(1, 2), None])
    elif what == "seed":
        c["seed"] = rng.randint(0, 10 ** 6)
    elif what == "target":
        c["target"] = rng.choice([x for x in [None, 0, 2, 1024] if x != c["target"]])
    elif what == "radius":
        c["radius"] = rng.choice([x for x in [0, 1, 20] if x != c["radius"]])
    c["what"] = what
    return c


def gen_dense_sa(rng):
    """A dense annealing problem (about a dozen vertices with four nets each on a 4x4 machine of one-core chips,
    full effort) placed after an unrelated call whose objects are still alive: the annealer makes thousands of
    accept/reject decisions on sums of irrational net costs, so anything that depends on object identity or on
    the state left by the earlier call shows in the placement."""
    n = rng.randint(9, 13)
    ids = ["v%d" % i for i in range(n)]
    nets = [dict(source=rng.choice(ids), sinks=[rng.choice(ids) for _ in range(rng.randint(1, 2))],
                 weight=rng.choice([1.0, 2.0, 0.5, 3.0])) for _ in range(min(64, 4 * n))]
    vals = rng.sample(range(64), len(nets))
    prob = dict(machine=dict(w=4, h=4, dead_chips=[], dead_links=[], cores=1, sdram=10000, exc=[]),
                vertices=[dict(id=i, cores=1, sdram=0) for i in ids], nets=nets, constraints=[],
                keys=[[v, 63] for v in vals])
    probe = dict(kind="chain", problem=prob, placer=rng.choice(["sa_py", "sa_py", "sa_c"]), seed=rng.randint(0, 10 ** 6),
                 target=None, radius=20, effort=1.0, what="dense-sa", callback=rng.choice([None, "keep", "edit"]))
    other = dict(kind="chain", problem=pnr_gen.gen_problem(rng), placer=rng.choice(PLACERS[:4]), seed=1, target=None, radius=20)
    return [other, probe]


def gen_family(rng):
    """A history of RELATED calls: a base call and copies of it that differ in one component each, in random
    order, the base once more at the end."""
    k = rng.random()
    if k < 0.12:
        # machine-control objects one after another: boots with presets / options / overrides in every order, and
        # controllers whose owner edits their public struct definitions
        opts = [dict(preset=pz, options=o, overrides=ov)
                for pz in (None, "spin3_boot_options", "spin5_boot_options") for o in ({}, {"hw_ver": 2}, {"led0": 0x1234})
                for ov in (None, {"hw_ver": 4}, {})]
        fam = [dict(kind="boot", what="boot-family", **rng.choice(opts)) for _ in range(rng.randint(3, 5))]
        fam.insert(rng.randrange(len(fam) + 1),
                   dict(kind="controller", updates=[], x=1, y=1, p=1, bmp={"board": 1, "frame": 0}, edit_structs=rng.choice([1, 2, 5]),
                        **{"raise": False}))
        fam.append(dict(kind="controller", updates=[], x=2, y=0, p=3, bmp={"board": 2, "frame": 1}, edit_structs=0, **{"raise": False}))
        return fam
    if k < 0.3:
        base = gen_table_call(rng)
    elif k < 0.47:
        base = gen_wrapper_call(rng)
    else:
        prob = pnr_gen.gen_problem(rng, max_w=6, max_h=6, max_vertices=9)
        while len(prob["vertices"]) < 4:
            prob = pnr_gen.gen_problem(rng, max_w=6, max_h=6, max_vertices=9)
        prob["machine"]["cores"] = rng.choice([2, 3, 3, 5])         # small chips: the placement spans several of them
        base = dict(kind="chain", problem=prob,
                    placer=rng.choice(PLACERS[:4] + PLACERS), seed=rng.randint(0, 10 ** 6),
                    target=rng.choice([None, None, 0, 2]), radius=rng.choice([0, 1, 20]))
    fam = [base] + [perturb(rng, base) for _ in range(rng.randint(2, 5))]
    if rng.random() < 0.4:
        fam.append(perturb(rng, fam[-1]))
    rng.shuffle(fam)
    return fam + [base]


def run(chk, args):
    chk.assumptions += ["history independence is checked for the probe kinds generated here (P&R chain through all 7 "
                        "placers, ordered_covering with its default alias argument, BitField definitions, controller "
                        "construction, Machine defaults, boot); CPython-level aliasing outside the inventoried carriers is "
                        "covered only by this differential run",
                        "`same seeded random generator`: the driver reseeds the global `random` module and passes a fresh "
                        "random.Random(seed) to the placers before each call in both runs"]
    chk.regenerate(UNITS)
    chk.prove()
    n_hist = 40 if chk.tier == "quick" else 1200
    if args.replay:
        rep = json.load(open(args.replay))
        hists = [f["replay"]["history"] for f in rep.get("failures", []) if "history" in f.get("replay", {})]
    else:
        hists = []
        for _ in range(n_hist):
            hists.append([gen_call(chk.rng) for _ in range(chk.rng.randint(2, 7))])
        for _ in range(2 * n_hist):
            hists.append(gen_family(chk.rng))
        for _ in range(n_hist // 4):
            hists.append(gen_dense_sa(chk.rng))
    corpus = lib.os.path.join(lib.VERIF, "corpus", "C17.json")
    if lib.os.path.exists(corpus):
        hists = json.load(open(corpus)) + hists
    # run A: whole history in one interpreter; run B: every call of the history alone in a fresh interpreter
    outA = [o for part in chk.impl_parallel("impl_c17.py", [[h] for h in hists], timeout=1800) for o in part]
    def fresh_counterpart(c):
        if c["kind"] == "chain" and c.get("callback"):
            return dict(c, callback=None)       # user code in the callback must not change the outcome
        if c["kind"] != "reuse":
            return c
        p = json.loads(json.dumps(c["problem"]))
        for e in c["edit_dead_links"]:
            if e not in p["machine"]["dead_links"]:
                p["machine"]["dead_links"].append(e)
        return dict(kind="reuse", problem=p, first=None, edit_dead_links=[], second=c["second"])
    singles = [[fresh_counterpart(c)] for h in hists for c in h]
    groups = [singles[i:i + 1] for i in range(len(singles))]
    outB = [o[0] for part in chk.impl_parallel("impl_c17.py", groups, timeout=1800) for o in part]
    k = 0
    for h, a in zip(hists, outA):
        if a == ["hang"] or a == ["skipped"]:
            k += len(h)
            chk.fail_input("history-hang", "a library call in this history did not terminate", dict(history=h))
            continue
        for i, (call, ra) in enumerate(zip(h, a)):
            rb = outB[k]
            k += 1
            if "what" in call:
                chk.count("family-variant:" + call["what"])
            chk.count("kind:" + call["kind"] + (":" + call["placer"] if "placer" in call else "") + (":" + call["fn"] if "fn" in call else "")
                      + (":" + call["second"]["placer"] if call["kind"] == "reuse" else ""))
            nontriv = i > 0 and not (isinstance(ra["result"], list) and ra["result"][:1] == ["raised"])
            chk.note_case([h[:i + 1]], nontriv)
            if ra["mutated"]:
                chk.fail_input("argument-mutated:" + ",".join(ra["mutated"]),
                               "call %r changed its arguments during stage(s) %s" % (call["kind"], ra["mutated"]),
                               dict(history=h[:i + 1], call_index=i))
            if rb == "hang" or isinstance(rb, list):
                continue
            if rb["mutated"] and not ra["mutated"]:
                chk.fail_input("argument-mutated:" + ",".join(rb["mutated"]),
                               "call %r changed its arguments (fresh interpreter)" % call["kind"],
                               dict(history=[call], call_index=0))
            if ra["result"] != rb["result"]:
                chk.fail_input("history-dependent:" + call["kind"],
                               "result of call #%d (%s) after the history differs from the same call made first in a "
                               "fresh interpreter" % (i, call["kind"]),
                               dict(history=h[:i + 1], call_index=i, after_history=ra["result"], fresh=rb["result"]))
        chk.traces_validated += 1
    chk.sample(dict(history=[dict((k2, v) for k2, v in c.items() if k2 != "problem") for c in hists[0]],
                    results=[json.dumps(r["result"])[:200] for r in outA[0]] if isinstance(outA[0], list) else outA[0]))
    chk.coverage["rule"] = ("random histories of 2-7 library calls, and twice as many FAMILY histories: a base call and 3-7 copies of it that differ in "
                            "ONE component each (machine size up or down, dead links, dead chips, resources, exceptions, vertex "
                            "resources, net weights, sinks, keys, constraints, seed, target, radius; for direct table-minimiser calls: "
                            "sources, routes, keys, target, function; for the wrapper() / place_and_route_wrapper() calls: each switch, "
                            "the core resource name, constraints / keyword dictionaries passed or defaulted), shuffled, the base repeated last (P&R chains place->allocate->route->tables->minimise "
                            "with each of the 7 placer configurations, ordered_covering with default aliases, BitField "
                            "definitions, controller construction and context use, Machine defaults); every call is also "
                            "run alone in a fresh interpreter and must give the same canonical result; every argument is "
                            "snapshotted before/after; non-trivial = a call at position >= 1 of a history that did not raise")
