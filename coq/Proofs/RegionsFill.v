(* C12, around the core: a tree object read while it is filled; the FFCS packets of flood_fill_aplx; the re-load
   request of load_application. *)
From Coq Require Import ZArith List Bool Lia Sorted.
Require Import Rig.Generated.GenRegions Rig.Generated.GenRegionsFill Rig.Model.Base Rig.Model.Regions
  Rig.Model.RegionsFill Rig.Spec.Regions Rig.Spec.RegionsFill.
Require Import Rig.Proofs.RegionsBits Rig.Proofs.RegionsLists Rig.Proofs.Regions Rig.Proofs.RegionsOrder.
Import ListNotations.
Open Scope Z_scope.
Ltac Zify.zify_post_hook ::= Z.to_euclidean_division_equations.

(* ------------------------------------------------------------------------------------------ *)
(* one tree object                                                                              *)
(* ------------------------------------------------------------------------------------------ *)
Lemma requested_app : forall a b x y p, requested (a ++ b) x y p = requested a x y p || requested b x y p.
Proof. intros. unfold requested. apply existsb_app. Qed.

Lemma run_ops_add : forall n (t : tree n) x y p r acc,
  run_ops n t (OpAdd x y p :: r) acc = bind (add_core n t x y p) (fun tb => run_ops n (fst tb) r acc).
Proof. reflexivity. Qed.

Lemma run_ops_read : forall n (t : tree n) r acc,
  run_ops n t (OpRead :: r) acc = run_ops n t r (regions n t :: acc).
Proof. reflexivity. Qed.

Lemma run_ops_spec : forall ops t done acc,
  root_ok t -> (forall x y p, cnt 3 t x y p = if requested done x y p then 1%nat else 0%nat) ->
  Forall in_space (adds_of ops) ->
  exists reads, run_ops 3 t ops acc = Ok (rev acc ++ reads) /\
    Forall2 exact_cover reads (read_prefixes ops done).
Proof.
  induction ops as [|[x0 y0 p0|] ops IH]; intros t done acc Hroot Hcnt Hall.
  - exists []. simpl. rewrite app_nil_r. split; [reflexivity | constructor].
  - simpl adds_of in Hall. inversion Hall as [|? ? Hc Hr]; subst.
    destruct (add_core_root t x0 y0 p0 Hroot Hc) as [t1 [Hadd [Hroot1 Hadd1]]].
    rewrite run_ops_add, Hadd. simpl bind. simpl fst. simpl read_prefixes.
    apply IH; [exact Hroot1 | | exact Hr].
    intros x y p. rewrite Hadd1, requested_app, Hcnt.
    change (requested [(x0, y0, p0)] x y p) with (core_eqb (x, y, p) (x0, y0, p0) || false).
    rewrite orb_false_r.
    destruct (core_eqb (x, y, p) (x0, y0, p0)), (requested done x y p); reflexivity.
  - simpl adds_of in Hall. rewrite run_ops_read. simpl read_prefixes.
    destruct (IH t done (regions 3 t :: acc) Hroot Hcnt Hall) as [reads [Hrun Hf]].
    exists (regions 3 t :: reads). split.
    + rewrite Hrun. simpl rev. rewrite <- app_assoc. reflexivity.
    + constructor; [|exact Hf]. intros x y p. apply Hcnt.
Qed.

Theorem tree_reads_exact : forall ops, Forall in_space (adds_of ops) ->
  exists reads, tree_session 3 ops = Ok reads /\ Forall2 exact_cover reads (read_prefixes ops []).
Proof.
  intros ops Hall. unfold tree_session.
  destruct (run_ops_spec ops (new_tree 3 0 0) [] [] root_new) as [reads [Hrun Hf]].
  - intros x y p. rewrite cnt_new. reflexivity.
  - exact Hall.
  - exists reads. split; [exact Hrun | exact Hf].
Qed.

(* ------------------------------------------------------------------------------------------ *)
(* the packets of flood_fill_aplx                                                               *)
(* ------------------------------------------------------------------------------------------ *)
Lemma ffcs_arg1_digits : forall m, 0 <= m < 2 ^ 18 ->
  ffcs_arg1 m = nn_flood_fill_core_select * 2 ^ 24 + m.
Proof.
  intros m Hm. unfold ffcs_arg1. rewrite Z.shiftl_mul_pow2 by lia.
  apply lor_high_low; [lia|]. change (2 ^ 18) with 262144 in Hm. change (2 ^ 24) with 16777216. lia.
Qed.

Lemma packet_roundtrip : forall rc, pair_well_formed rc ->
  packet_command (ffcs_arg1 (snd rc), ffcs_arg2 (fst rc)) = nn_flood_fill_core_select /\
  packet_pair (ffcs_arg1 (snd rc), ffcs_arg2 (fst rc)) = rc.
Proof.
  intros [r m] [Hr Hm]. simpl in *. unfold packet_command, packet_pair. simpl fst. simpl snd.
  rewrite ffcs_arg1_digits by lia. unfold ffcs_arg2, nn_flood_fill_core_select.
  change (2 ^ 18) with 262144 in Hm. change (2 ^ 24) with 16777216.
  split; [lia|]. f_equal. lia.
Qed.

Theorem flood_fill_packets_exact : forall cs, Forall in_space cs ->
  exists pk, ffcs_packets cs = Ok pk /\
    Forall (fun a => packet_command a = nn_flood_fill_core_select) pk /\
    exact_cover (map packet_pair pk) cs /\
    StronglySorted (fun a b => fst a < fst b) (map packet_pair pk).
Proof.
  intros cs Hall. destruct (compress_exact cs Hall) as [out [Hout Hex]].
  destruct (compress_sorted cs out Hout) as [Hs Hw].
  unfold ffcs_packets. rewrite Hout. simpl bind.
  eexists. split; [reflexivity|].
  assert (Hmap : map packet_pair (map (fun rc => (ffcs_arg1 (snd rc), ffcs_arg2 (fst rc))) out) = out).
  { rewrite map_map. clear Hex Hs Hout. induction Hw as [|rc out Hrc Hw IH]; [reflexivity|].
    simpl. rewrite IH. f_equal. apply packet_roundtrip. exact Hrc. }
  split.
  - apply Forall_forall. intros a Ha. apply in_map_iff in Ha. destruct Ha as [rc [<- Hrc]].
    rewrite Forall_forall in Hw. apply packet_roundtrip. apply Hw. exact Hrc.
  - rewrite Hmap. split; [exact Hex | exact Hs].
Qed.

Theorem flood_fill_packets_outside : forall cs, Exists (fun c => ~ in_space c) cs -> ffcs_packets cs = Failed 0.
Proof. intros cs H. unfold ffcs_packets. rewrite (compress_outside cs H). reflexivity. Qed.

(* ------------------------------------------------------------------------------------------ *)
(* the re-load request of load_application                                                      *)
(* ------------------------------------------------------------------------------------------ *)
Lemma requested_flatten : forall ts x y p,
  requested (flatten_targets ts) x y p
  = existsb (fun e => (fst (fst e) =? x) && (snd (fst e) =? y) && existsb (Z.eqb p) (snd e)) ts.
Proof.
  induction ts as [|[[cx cy] ps] ts IH]; intros x y p; [reflexivity|].
  unfold flatten_targets in *. simpl flat_map. rewrite requested_app, IH. simpl existsb at 3. f_equal.
  simpl fst. simpl snd. clear IH. induction ps as [|q ps IHp].
  - simpl. rewrite andb_false_r. reflexivity.
  - simpl map. unfold requested in *. simpl existsb. rewrite IHp.
    unfold core_eqb. rewrite (Z.eqb_sym x cx), (Z.eqb_sym y cy).
    destruct (cx =? x), (cy =? y); simpl; reflexivity.
Qed.

Lemma existsb_cons : forall A (f : A -> bool) a l, existsb f (a :: l) = f a || existsb f l.
Proof. reflexivity. Qed.

Lemma filter_cons : forall A (f : A -> bool) a l, filter f (a :: l) = if f a then a :: filter f l else filter f l.
Proof. reflexivity. Qed.

Lemma existsb_filter : forall (f : Z -> bool) p ps,
  existsb (Z.eqb p) (filter f ps) = existsb (Z.eqb p) ps && f p.
Proof.
  intros f p ps. induction ps as [|a ps IH]; [reflexivity|].
  simpl filter. destruct (f a) eqn:Fa; simpl existsb; rewrite IH;
    destruct (Z.eqb_spec p a) as [-> | Hne]; simpl orb; try reflexivity.
  - rewrite Fa. reflexivity.
  - rewrite Fa, !andb_false_r. reflexivity.
Qed.

Theorem reload_requests_failed_cores : forall state ts x y p,
  requested (flatten_targets (reload_targets state ts)) x y p
  = requested (flatten_targets ts) x y p && negb (state x y p =? app_state_wait).
Proof.
  intros state ts x y p. rewrite !requested_flatten. unfold reload_targets.
  induction ts as [|[[cx cy] ps] ts IH]; [reflexivity|].
  simpl map. simpl fst. simpl snd.
  set (ps' := filter (fun q => negb (state cx cy q =? app_state_wait)) ps).
  assert (Hps : (cx =? x) && (cy =? y) && existsb (Z.eqb p) ps'
                = (cx =? x) && (cy =? y) && existsb (Z.eqb p) ps && negb (state x y p =? app_state_wait)).
  { destruct (Z.eqb_spec cx x) as [-> | ]; [|reflexivity]. destruct (Z.eqb_spec cy y) as [-> | ]; [|reflexivity].
    simpl andb. unfold ps'. apply existsb_filter. }
  rewrite (existsb_cons _ _ (cx, cy, ps) ts), filter_cons.
  cbv beta. simpl fst. simpl snd. rewrite andb_orb_distrib_l, <- Hps, <- IH.
  destruct (Nat.eqb (length ps') 0) eqn:El; simpl negb; cbv iota.
  - apply Nat.eqb_eq in El. destruct ps'; [|discriminate]. simpl (existsb (Z.eqb p) []).
    rewrite andb_false_r. reflexivity.
  - rewrite existsb_cons. reflexivity.
Qed.

Definition ex_ops : list tree_op := [OpRead; OpAdd 0 0 1; OpRead; OpRead; OpAdd 0 64 3; OpRead].

Lemma ex_ops_ok :
  Forall in_space (adds_of ex_ops) /\
  tree_session 3 ex_ops = Ok [[]; [(196609, 2)]; [(196609, 2)]; [(196609, 2); (4390913, 8)]].
Proof.
  split.
  - simpl. repeat (constructor; [unfold in_space; lia|]). constructor.
  - vm_compute. reflexivity.
Qed.

(* ------------------------------------------------------------------------------------------ *)
(* audit follow-up: the 18-bit reading of the core mask; no empty region word; a block that is     *)
(* full for some cores only                                                                        *)
(* ------------------------------------------------------------------------------------------ *)
Theorem flood_fill_packets_mask18 : forall cs pk, ffcs_packets cs = Ok pk ->
  map packet_pair18 pk = map packet_pair pk.
Proof.
  intros cs pk Hpk. unfold ffcs_packets in Hpk. destruct (compress cs) as [out| | |] eqn:Hout; try discriminate.
  simpl in Hpk. inversion Hpk. subst pk. clear Hpk.
  destruct (compress_sorted cs out Hout) as [_ Hw]. rewrite !map_map.
  apply map_ext_in. intros [r m] Hin. rewrite Forall_forall in Hw. destruct (Hw _ Hin) as [_ Hm]. simpl in Hm.
  unfold packet_pair18, packet_pair. simpl fst. simpl snd. rewrite ffcs_arg1_digits by lia.
  unfold nn_flood_fill_core_select. change (2 ^ 18) with 262144 in *. change (2 ^ 24) with 16777216. f_equal. lia.
Qed.

Lemma local_pairs_blocks : forall n bx by_ sel rc, (n <= 3)%nat -> base_ok n bx by_ ->
  length sel = 18%nat -> Forall (fun m => 0 <= m < 65536) sel ->
  In rc (local_pairs (region_code bx by_ (level_of n)) sel) -> word_blocks (fst rc) <> 0.
Proof.
  intros n bx by_ sel rc Hn Hb Hl Hs Hrc.
  destruct (group_all 0 0 sel) as [[_ Hok] _]. rewrite Forall_forall in Hs.
  unfold local_pairs in Hrc. apply in_map_iff in Hrc. destruct Hrc as [e [<- He]].
  apply (proj1 (py_sorted_In _ _)) in He. destruct (Hok e He) as [Hne [Hin _]]. simpl fst.
  rewrite local_word by (try assumption; apply Hs; exact Hin).
  unfold base_ok in Hb.
  assert (H4 : by_ mod 4 = 0 /\ 0 <= bx < 256 /\ 0 <= by_ < 256).
  { destruct (side_cases n Hn) as [Hs' | [Hs' | [Hs' | Hs']]]; rewrite Hs' in Hb; lia. }
  assert (Hm : 0 <= fst e < 65536) by (apply Hs; exact Hin).
  assert (Hlv : 0 <= level_of n <= 3) by (unfold level_of; lia).
  destruct (decode_word bx by_ (level_of n) (fst e)) as [_ [_ [_ [D4 _]]]]; lia.
Qed.

Lemma regions_blocks : forall n, (n <= 3)%nat -> forall (t : tree n) rc, wf n t ->
  In rc (regions n t) -> word_blocks (fst rc) <> 0.
Proof.
  induction n as [|k IH]; intros Hn t rc Hwf Hrc.
  - destruct Hwf as [Hb [Hl Hs]]. rewrite regions_O in Hrc. apply (local_pairs_blocks O _ _ _ rc Hn Hb Hl Hs Hrc).
  - destruct Hwf as [[Hb [Hl Hs]] [Hlen Hch]]. rewrite regions_S in Hrc. apply in_app_or in Hrc.
    destruct Hrc as [Hrc | Hrc]; [apply (local_pairs_blocks (S k) _ _ _ rc Hn Hb Hl Hs Hrc)|].
    apply in_flat_map in Hrc. destruct Hrc as [j [Hj Hrc]]. apply child_order_range in Hj.
    destruct (child k t j) as [c|] eqn:Hc; [|destruct Hrc].
    destruct (Hch j c Hj Hc) as [Hwc _]. apply (IH ltac:(lia) c rc Hwc Hrc).
Qed.

Theorem compress_no_empty_region : forall cs out, compress cs = Ok out ->
  Forall (fun rc => word_blocks (fst rc) <> 0) out.
Proof.
  intros cs out Hout.
  assert (Hall : Forall in_space cs) by (apply compress_ok_iff; exists out; exact Hout).
  destruct (add_all_spec cs _ root_new Hall) as [t' [Hadd [[Hwf _] _]]].
  assert (E : out = py_sorted (regions 3 t')).
  { unfold compress in Hout. rewrite Hadd in Hout. cbn [bind] in Hout. congruence. }
  subst out. apply Forall_forall. intros rc Hrc. apply (proj1 (py_sorted_In _ _)) in Hrc.
  apply (regions_blocks 3 (le_n 3) t' rc Hwf Hrc).
Qed.

(* the 4x4 block at (8, 4): all 16 chips ask for core 1, all but chip (11, 7) ask for core 2 *)
Definition ex_partly_full : list core :=
  flat_map (fun i => (8 + i mod 4, 4 + i / 4, 1) :: (if i =? 15 then [] else [(8 + i mod 4, 4 + i / 4, 2)]))
           [0; 1; 2; 3; 4; 5; 6; 7; 8; 9; 10; 11; 12; 13; 14; 15].

Lemma ex_partly_full_ok :
  Forall in_space ex_partly_full /\ length ex_partly_full = 31%nat /\
  compress ex_partly_full = Ok [(131136, 2); (134709247, 4)] /\
  word_level 131136 = 2 /\ word_blocks 131136 = 64 /\ word_level 134709247 = 3 /\ word_blocks 134709247 = 32767.
Proof.
  split; [|split; [reflexivity | split; [vm_compute; reflexivity | repeat split]]].
  apply Forall_forall. intros c Hc. vm_compute in Hc.
  repeat (destruct Hc as [<- | Hc]; [unfold in_space; lia|]). destruct Hc.
Qed.
