(* C09: boolean versions of the guards (so that they can be evaluated on concrete machines), the two
   refutation witnesses and the examples showing that the hypotheses of the theorems are satisfiable. *)
From Coq Require Import ZArith List Bool Lia.
Require Import Rig.Generated.GenLoad Rig.Model.Base Rig.Model.Regions Rig.Spec.Regions Rig.Model.Load Rig.Spec.Load.
Require Import Rig.Proofs.Regions Rig.Proofs.LoadMachine Rig.Proofs.LoadCount.
Import ListNotations.
Open Scope Z_scope.

(* ---------------------------------------------------------------- from lists to core_at *)
Lemma core_at_In : forall m c s, core_at m c = Some s ->
  exists xy ch, In (xy, ch) (m_chips m) /\ In s (ch_cores ch).
Proof.
  intros m [[x y] p] s H. unfold core_at in H. destruct (p <? 0); [discriminate|].
  destruct (cassoc (x, y) (m_chips m)) as [ch|] eqn:E; [|discriminate].
  exists (x, y), ch. split; [apply cassoc_Some_In; exact E|eapply nth_error_In; exact H].
Qed.

Definition all_coresb (f : core_st -> bool) (m : machine) : bool :=
  forallb (fun e => forallb f (ch_cores (snd e))) (m_chips m).

Lemma all_coresb_spec : forall f m, all_coresb f m = true -> forall c s, core_at m c = Some s -> f s = true.
Proof.
  intros f m H c s Hat. destruct (core_at_In m c s Hat) as (xy & ch & Hin & Hs).
  unfold all_coresb in H. rewrite forallb_forall in H. specialize (H (xy, ch) Hin). cbn [snd] in H.
  rewrite forallb_forall in H. apply H. exact Hs.
Qed.

(* ---------------------------------------------------------------- boolean guards *)
Fixpoint nodupb {A} (eqb : A -> A -> bool) (l : list A) : bool :=
  match l with [] => true | a :: r => negb (existsb (eqb a) r) && nodupb eqb r end.

Lemma nodupb_spec : forall A (eqb : A -> A -> bool) (l : list A),
  (forall a b, eqb a b = true <-> a = b) -> nodupb eqb l = true -> NoDup l.
Proof.
  intros A eqb l Heq. induction l as [|a l IH]; intros H; [constructor|]. cbn [nodupb] in H.
  apply andb_prop in H. destruct H as [H1 H2]. constructor; [|apply IH; exact H2].
  intros Hin. apply negb_true_iff in H1. assert (existsb (eqb a) l = true); [|congruence].
  apply existsb_exists. exists a. split; [exact Hin|apply Heq; reflexivity].
Qed.

Definition core_wfb (s : core_st) : bool :=
  (0 <=? cs_state s) && (cs_state s <? 256) && (0 <=? cs_app s) && (cs_app s <? 256).

Definition machine_wfb (m : machine) : bool :=
  nodupb chip_eqb (map fst (m_chips m)) && all_coresb core_wfb m
  && forallb (fun xy => (m_vcpu m xy + VCPU_SIZE * N_CORES <=? SV_BASE) || (SV_BASE + 256 <=? m_vcpu m xy))
             (map fst (m_chips m))
  && forallb (fun xy => (0 <=? m_vcpu m xy) && (m_vcpu m xy <? 2 ^ 32)) (map fst (m_chips m))
  && true && (0 <=? m_base m) && (m_base m <? 2 ^ 32)
  && (4 <=? m_buffer m) && (m_buffer m <=? 1024) && (m_buffer m mod 4 =? 0).

Lemma machine_wfb_spec : forall m, machine_wfb m = true -> machine_wf m.
Proof.
  intros m H. unfold machine_wfb in H.
  apply andb_prop in H. destruct H as [H Hj]. apply andb_prop in H. destruct H as [H Hi].
  apply andb_prop in H. destruct H as [H Hh]. apply andb_prop in H. destruct H as [H Hg].
  apply andb_prop in H. destruct H as [H Hf]. apply andb_prop in H. destruct H as [H He].
  apply andb_prop in H. destruct H as [H Hd]. apply andb_prop in H. destruct H as [H Hc].
  apply andb_prop in H. destruct H as [Ha Hb].
  unfold machine_wf. split; [apply (nodupb_spec _ chip_eqb); [exact chip_eqb_eq|exact Ha]|].
  split.
  - intros c s Hat. pose proof (all_coresb_spec _ _ Hb c s Hat) as Hs. unfold core_wfb in Hs.
    apply andb_prop in Hs. destruct Hs as [Hs H4]. apply andb_prop in Hs. destruct Hs as [Hs H3].
    apply andb_prop in Hs. destruct Hs as [H1 H2]. unfold core_wf. lia.
  - change (2 ^ 32) with 4294967296 in *. rewrite forallb_forall in Hc, Hd.
    split; [intros xy Hin; specialize (Hc xy Hin); apply orb_prop in Hc; destruct Hc as [Hc|Hc]; [left|right]; lia|].
    split; [intros xy Hin; specialize (Hd xy Hin); apply andb_prop in Hd; destruct Hd; lia|].
    repeat split; lia.
Qed.

Definition binary_okb (buffer : Z) (data : list Z) : bool :=
  (zlen data mod 4 =? 0) && (ff_n_blocks (zlen data) buffer <=? 255).

Lemma bins_okb_spec : forall buffer bins, forallb (binary_okb buffer) bins = true -> bins_ok buffer bins.
Proof.
  intros buffer bins H. unfold bins_ok. apply Forall_forall. intros d Hd. rewrite forallb_forall in H.
  specialize (H d Hd). unfold binary_okb in H. apply andb_prop in H. destruct H as [A B]. split; lia.
Qed.

Definition map_wfb (am : appmap) : bool :=
  nodupb core_eqb (map snd (named am))
  && forallb (fun bc => let '(x, y, p) := snd bc in in_spaceb (x, y, p) && negb ((x =? 255) && (y =? 255))) (named am).

Lemma map_wfb_spec : forall am, map_wfb am = true -> map_wf am.
Proof.
  intros am H. unfold map_wfb in H. apply andb_prop in H. destruct H as [H1 H2]. split.
  - apply (nodupb_spec _ core_eqb); [exact core_eqb_eq|exact H1].
  - intros b x y p Hin. rewrite forallb_forall in H2. specialize (H2 _ Hin). cbn [snd] in H2.
    apply andb_prop in H2. destruct H2 as [A B]. split; [apply in_spaceb_spec; exact A|].
    intros [-> ->]. discriminate.
Qed.

Definition not_waitingb (m : machine) (c : core) : bool :=
  match core_at m c with Some s => negb (cs_state s =? STATE_WAIT) | None => true end.

Lemma no_requested_waitingb_spec : forall m am,
  forallb (fun bc => not_waitingb m (snd bc)) (named am) = true -> no_requested_waiting m am.
Proof.
  intros m am H b c Hin [s [Hat Hs]]. rewrite forallb_forall in H. specialize (H _ Hin). cbn [snd] in H.
  unfold not_waitingb in H. rewrite Hat in H. apply negb_true_iff, Z.eqb_neq in H. contradiction.
Qed.

(* no core at all waits: in particular no other core waits under the app id *)
Lemma nobody_waiting : forall m am aid,
  all_coresb (fun s => negb (cs_state s =? STATE_WAIT)) m = true -> no_other_waiting m am aid.
Proof.
  intros m am aid H c s _ Hat [Hs _]. pose proof (all_coresb_spec _ _ H c s Hat) as Hn. cbv beta in Hn.
  apply negb_true_iff, Z.eqb_neq in Hn. contradiction.
Qed.

Definition ctrl_wfb (c : ctrl) (m : machine) : bool :=
  (0 <=? c_nn c) && (c_nn c <=? 126)
  && match c_buffer c with None => true | Some b => b =? m_buffer m end.

Lemma ctrl_wfb_spec : forall c m, ctrl_wfb c m = true -> ctrl_wf c m.
Proof.
  intros c m H. unfold ctrl_wfb in H. apply andb_prop in H. destruct H as [H H3]. apply andb_prop in H.
  destruct H as [H1 H2]. split; [lia|]. destruct (c_buffer c) as [b|]; [right|left; reflexivity].
  apply Z.eqb_eq in H3. subst b. reflexivity.
Qed.

(* ---------------------------------------------------------------- the witnesses *)
Definition ex_bin0 : list Z := map Z.of_nat (seq 0 32).
Definition ex_bin1 : list Z := map (fun i => 255 - Z.of_nat i) (seq 0 16).
Definition ex_bins : list (list Z) := [ex_bin0; ex_bin1].
Definition idle_chip : chip_st := mkChip (repeat idle_core 18) None.

(* two chips; core (0, 0, 1) still waits under app id 30 from an earlier load; chip (1, 0) will miss the
   next flood fill *)
Definition k3_machine : machine :=
  mkMachine 16 1612972032 (fun _ => 3842011136)
            [((0, 0), mkChip (idle_core :: mkCore STATE_WAIT 30 ex_bin0 :: repeat idle_core 16) None);
             ((1, 0), idle_chip)]
            [[(1, 0)]] [].
Definition k3_map : appmap := [(1, [((0, 0), [2]); ((1, 0), [3])])].
Definition default_args (aid : Z) : load_args :=
  mkArgs aid load_default_wait load_default_n_tries load_default_use_count.

(* count mode, a stale waiting core of the same app id, one requested core misses the fill: the call
   returns normally and core (1, 0, 3) is not loaded *)
Lemma count_mode_witness :
  exists c' w' atts,
    load_application ex_bins ctrl_init (mkWorld k3_machine []) k3_map (default_args 30)
    = Ok (c', w', Returned, atts)
    /\ core_at (w_m w') (1, 0, 3) = Some idle_core
    /\ In (1, (1, 0, 3)) (named k3_map).
Proof.
  eexists _, _, _. split; [vm_compute; reflexivity|]. split; [vm_compute; reflexivity|].
  right. left. reflexivity.
Qed.

Lemma count_mode_witness_guards :
  machine_wf k3_machine /\ ctrl_wf ctrl_init k3_machine /\ map_wf k3_map
  /\ bins_ok (m_buffer k3_machine) ex_bins /\ no_requested_waiting k3_machine k3_map
  /\ a_count (default_args 30) = true
  /\ ~ no_other_waiting k3_machine k3_map 30.
Proof.
  split; [apply machine_wfb_spec; vm_compute; reflexivity|].
  split; [apply ctrl_wfb_spec; vm_compute; reflexivity|].
  split; [apply map_wfb_spec; vm_compute; reflexivity|].
  split; [apply bins_okb_spec; vm_compute; reflexivity|].
  split; [apply no_requested_waitingb_spec; vm_compute; reflexivity|].
  split; [reflexivity|].
  intros H. apply (H (0, 0, 1) (mkCore STATE_WAIT 30 ex_bin0)).
  - cbn. intros [E|[E|[]]]; discriminate.
  - vm_compute. reflexivity.
  - split; reflexivity.
Qed.

(* the requested core (1, 0, 3) itself still waits (binary 0) and its chip misses every fill: the
   per-core check takes the old `wait` for the new load, in both modes *)
Definition stale_machine : machine :=
  mkMachine 16 1612972032 (fun _ => 3842011136)
            [((0, 0), idle_chip);
             ((1, 0), mkChip (repeat idle_core 3 ++ mkCore STATE_WAIT 30 ex_bin0 :: repeat idle_core 14) None)]
            [[(1, 0)]; [(1, 0)]; [(1, 0)]; [(1, 0)]] [].
Definition state_args (aid : Z) : load_args := mkArgs aid load_default_wait load_default_n_tries false.

Lemma state_mode_witness :
  exists c' w' atts,
    load_application ex_bins ctrl_init (mkWorld stale_machine []) k3_map (state_args 30)
    = Ok (c', w', Returned, atts)
    /\ core_at (w_m w') (1, 0, 3) = Some (mkCore STATE_RUN 30 ex_bin0)
    /\ In (1, (1, 0, 3)) (named k3_map).
Proof.
  eexists _, _, _. split; [vm_compute; reflexivity|]. split; [vm_compute; reflexivity|].
  right. left. reflexivity.
Qed.

Lemma state_mode_witness_guards :
  machine_wf stale_machine /\ ctrl_wf ctrl_init stale_machine /\ map_wf k3_map
  /\ bins_ok (m_buffer stale_machine) ex_bins /\ a_count (state_args 30) = false
  /\ ~ no_requested_waiting stale_machine k3_map.
Proof.
  split; [apply machine_wfb_spec; vm_compute; reflexivity|].
  split; [apply ctrl_wfb_spec; vm_compute; reflexivity|].
  split; [apply map_wfb_spec; vm_compute; reflexivity|].
  split; [apply bins_okb_spec; vm_compute; reflexivity|].
  split; [reflexivity|].
  intros H. apply (H 1 (1, 0, 3)); [right; left; reflexivity|].
  exists (mkCore STATE_WAIT 30 ex_bin0). split; [vm_compute; reflexivity|reflexivity].
Qed.

(* ---------------------------------------------------------------- satisfiable hypotheses *)
(* a fresh machine, chip (1, 0) misses the first fill: count mode retries once and loads both cores *)
Definition fresh_machine : machine :=
  mkMachine 16 1612972032 (fun _ => 3842011136) [((0, 0), idle_chip); ((1, 0), idle_chip)] [[(1, 0)]] [].

Lemma fresh_example :
  machine_wf fresh_machine /\ ctrl_wf ctrl_init fresh_machine /\ map_wf k3_map
  /\ bins_ok (m_buffer fresh_machine) ex_bins /\ 0 <= 30 < 256
  /\ no_requested_waiting fresh_machine k3_map
  /\ no_other_waiting fresh_machine k3_map 30
  /\ exists c' w' atts,
       load_application ex_bins ctrl_init (mkWorld fresh_machine []) k3_map (default_args 30)
       = Ok (c', w', Returned, atts)
       /\ length atts = 2%nat
       /\ core_at (w_m w') (1, 0, 3) = Some (mkCore STATE_RUN 30 ex_bin1).
Proof.
  split; [apply machine_wfb_spec; vm_compute; reflexivity|].
  split; [apply ctrl_wfb_spec; vm_compute; reflexivity|].
  split; [apply map_wfb_spec; vm_compute; reflexivity|].
  split; [apply bins_okb_spec; vm_compute; reflexivity|].
  split; [lia|].
  split; [apply no_requested_waitingb_spec; vm_compute; reflexivity|].
  split; [apply nobody_waiting; vm_compute; reflexivity|].
  eexists _, _, _. split; [vm_compute; reflexivity|]. split; vm_compute; reflexivity.
Qed.

(* chip (1, 0) misses every fill: after n_tries + 1 = 3 attempts the error names exactly core (1, 0, 3) *)
Definition deaf_machine : machine :=
  mkMachine 16 1612972032 (fun _ => 3842011136) [((0, 0), idle_chip); ((1, 0), idle_chip)]
            [[(1, 0)]; [(1, 0)]; [(1, 0)]; [(1, 0)]] [].

Lemma deaf_example :
  machine_wf deaf_machine /\ no_requested_waiting deaf_machine k3_map
  /\ exists c' w' atts,
       load_application ex_bins ctrl_init (mkWorld deaf_machine []) k3_map (state_args 30)
       = Ok (c', w', LoadingError [(1, [((1, 0), [3])])], atts)
       /\ length atts = 3%nat.
Proof.
  split; [apply machine_wfb_spec; vm_compute; reflexivity|].
  split; [apply no_requested_waitingb_spec; vm_compute; reflexivity|].
  eexists _, _, _. split; vm_compute; reflexivity.
Qed.

(* the guards of "no other exception" are satisfiable as well *)
Lemma fresh_answers : machine_answers fresh_machine /\ map_present ex_bins fresh_machine k3_map.
Proof.
  split.
  - split; [discriminate|]. split; [intros xy _; vm_compute; congruence|].
    apply (all_coresb_spec (fun s => is_member (cs_state s) AppState_members)). vm_compute. reflexivity.
  - split.
    + intros b [<-|[]]. exists ex_bin1. split; [reflexivity|vm_compute; congruence].
    + intros b x y p [H|[H|[]]]; inversion H; subst; cbn; auto.
Qed.

(* two binaries, one of 40 bytes = two full blocks of the 16-byte buffer plus a short last block of 8 bytes;
   chip (1, 0) misses the first fill of the second binary; state mode *)
Definition ex_bin40 : list Z := map (fun i => (7 * Z.of_nat i + 3) mod 256) (seq 0 40).
Definition two_bins : list (list Z) := [ex_bin40; ex_bin1].
Definition two_map : appmap := [(0, [((0, 0), [1]); ((1, 0), [5])]); (1, [((1, 0), [2; 3])])].
Definition two_machine : machine :=
  mkMachine 16 1612972032 (fun _ => 3842011136) [((0, 0), idle_chip); ((1, 0), idle_chip)] [[]; [(1, 0)]] [].

Lemma two_binaries_example :
  machine_wf two_machine /\ ctrl_wf ctrl_init two_machine /\ map_wf two_map
  /\ bins_ok (m_buffer two_machine) two_bins /\ no_requested_waiting two_machine two_map
  /\ ff_n_blocks (zlen ex_bin40) (m_buffer two_machine) = 3
  /\ exists c' w' atts,
       load_application two_bins ctrl_init (mkWorld two_machine []) two_map (state_args 30)
       = Ok (c', w', Returned, atts)
       /\ map fst atts = [two_map; [(1, [((1, 0), [2; 3])])]]
       /\ core_at (w_m w') (1, 0, 5) = Some (mkCore STATE_RUN 30 ex_bin40)
       /\ core_at (w_m w') (1, 0, 3) = Some (mkCore STATE_RUN 30 ex_bin1)
       /\ length (filter (fun q => q_cmd q =? CMD_FFD) (sent w')) = 5%nat.
Proof.
  split; [apply machine_wfb_spec; vm_compute; reflexivity|].
  split; [apply ctrl_wfb_spec; vm_compute; reflexivity|].
  split; [apply map_wfb_spec; vm_compute; reflexivity|].
  split; [apply bins_okb_spec; vm_compute; reflexivity|].
  split; [apply no_requested_waitingb_spec; vm_compute; reflexivity|].
  split; [vm_compute; reflexivity|].
  eexists _, _, _. split; [vm_compute; reflexivity|]. repeat split; vm_compute; reflexivity.
Qed.
