"""Drive rig's MachineController / BMPController on JSON-described histories (C18).

Runs under /venv/bin/python with PYTHONPATH=<repo>:/verif/harness.  Nothing touches the network: the class
SCPConnection is replaced (module attribute, from outside) by a recording fake *before* a controller is
constructed, and every connection of the controller is such a fake.  The fake stands at the API boundary
of SCPConnection (send_scp / read / write), i.e. it sees the destination (x, y, p), the command and argument
words and which connection object was used -- the observation points of the property.

A case: dict(cls="MC"|"BMP", init=None|[[name, value]...], ctl=dict(width, height, root, conns, bmp),
             ops=[op...])
  op = ["call", method, [pos...], [[name, value]...], propagate]
     | ["with", [[name, value]...], [op...], var]   (var = null: `with c(...)`; var = k: a Context object kept
                                                     in variable k -- created once, re-entered each time)
     | ["app", [pos...], [[name, value]...], [op...], intr]   (intr = null, or the name of the BaseException
                                   the connection raises while the block's stop command is being sent)
     | ["withcb", [[name, value]...], [op...], exc]   (a block whose before_close callback raises exc)
     | ["callrefused", method, [pos...], [[name, value]...], "TimeoutError"|"FatalReturnCodeError"]
     | ["ctxupdate", var, [[name, value]...]]   (v.update(...) on the kept Context object v, which is entered)
     | ["getargs", "clear"|"pop"|"update", [[name, value]...]]   (d = c.get_context_arguments(); d is edited)
   an "app" op may carry a 6th element: a variable number -- the application context is then created once
   (app = c.application(n)) and entered again on later uses
     | ["update", [[name, value]...]] | ["raise"] | ["try", [op...]]
  value = int | null | true/false | {"t": k}   (an opaque object; materialised per method/parameter here)
A case may carry "discover": a machine description; then MachineController.discover_connections() is RUN FOR
REAL against per-board fake connections (some of whose probes fail) before the history, and the state it
leaves (dimensions, root chip, connections kept) is reported as "ctl_after".
Result: dict(events=[...], stack=[[[name, value]...]...], raised=bool[, ctl_after, discover_exc])
  event = ["call", method, trace, exception class|null] | ["stop", trace, exception class|null]
        | ["stack", tag, raw stack, merged arguments]
  trace entry = [connection id, kind (0 send_scp, 1 read, 2 write), x, y, p, cmd, arg1, arg2, arg3]
"""
import os
import struct
import sys
import tempfile
import types
import warnings

warnings.simplefilter("ignore")

import rig.machine_control.machine_controller as mcmod  # noqa: E402
import rig.machine_control.bmp_controller as bmpmod  # noqa: E402
from rig.machine_control import consts  # noqa: E402
from rig.routing_table import RoutingTableEntry, Routes  # noqa: E402

TRACE = []


class HarnessRaise(Exception):
    pass


class HarnessInterrupt(BaseException):
    """a BaseException that is not an Exception (like KeyboardInterrupt / SystemExit / GeneratorExit)"""


CAUGHT = (Exception, KeyboardInterrupt, SystemExit, HarnessInterrupt)     # what a "try" op catches
RAISABLE = {"Exception": HarnessRaise, "KeyboardInterrupt": KeyboardInterrupt, "SystemExit": SystemExit,
            "HarnessInterrupt": HarnessInterrupt}
REFUSE = {"next": None}              # SCPError class the connection raises on the next command handed to it
INTERRUPT = {"next_stop": None}     # exception class the connection raises when the next stop signal is sent


def enc(v):
    """JSON form of a value seen on the wire"""
    if v is None or isinstance(v, bool):
        return v
    if isinstance(v, int):
        return int(v)
    return {"repr": repr(v)[:40]}


class Reply(object):
    def __init__(self, cmd, arg2):
        self.cmd_rc = 0x80
        # every command succeeds: an allocation returns a word aligned address / a non-zero table index,
        # a count returns 1 (= the one core the harness loads)
        self.arg1 = {int(consts.SCPCommands.alloc_free): 0x60000100, int(consts.SCPCommands.signal): 1}.get(cmd, 0)
        self.arg2 = 256
        self.arg3 = 0
        n = 64
        if cmd == int(consts.SCPCommands.link_read) and isinstance(arg2, int) and 0 <= arg2 <= 1024:
            n = arg2
        elif cmd == int(consts.SCPCommands.bmp_info):
            n = 48
        self.data = b"\0" * n


MODE = {"machine": None}     # a machine description while discover_connections() runs, else None


class Machine(object):
    """The simulated multi-board machine discover_connections() talks to (connection level)."""
    def __init__(self, d):
        self.w, self.h = d["w"], d["h"]
        self.root = tuple(d["root"])
        self.status = dict((tuple(xy), st) for xy, st in d["eth"])     # Ethernet chip -> status
        self.ident = dict((tuple(xy), d.get("id_base", 0) + i + 1) for i, (xy, st) in enumerate(d["eth"]))
        self.dead = set(tuple(xy) for xy in d["dead"]) | set(xy for xy, st in self.status.items() if st == "dead")

    def host_of(self, chip):
        return "10.0.%d.%d" % chip

    def chip_of(self, host):
        for chip in self.status:
            if self.host_of(chip) == host:
                return chip
        return None

    def answer(self, conn, x, y, cmd, address=None, length=None):
        from rig.machine_control.scp_connection import TimeoutError as SCPTimeout
        at = self.chip_of(conn.host)
        if at is not None and self.status[at] == "probe-fails":
            raise SCPTimeout("no response over this link")
        if at is None:
            at = self.root
        cx, cy = at if (x, y) == (255, 255) else (x, y)
        if cmd == "read":
            if consts.SPINNAKER_RTR_P2P <= address < consts.SPINNAKER_RTR_P2P + 0x10000:
                col = (address - consts.SPINNAKER_RTR_P2P) // 128
                words = []
                for k in range(length // 4):
                    wd = 0
                    for i in range(8):
                        dead = (col, 8 * k + i) in self.dead or 8 * k + i >= self.h or col >= self.w
                        wd |= (6 if dead else 2) << (3 * i)
                    words.append(wd)
                return struct.pack("<%dI" % len(words), *words)
            if length == 2:
                return struct.pack("<H", (self.w << 8) | self.h)
            return b"\0" * length
        if cmd == int(consts.SCPCommands.sver):
            r = Reply(cmd, 0)
            r.arg1 = (cx << 24) | (cy << 16)
            r.arg2 = (133 << 16) | 256
            r.data = b"SC&MP/SpiNNaker\0"
            return r
        if cmd == int(consts.SCPCommands.info):
            st = self.status.get((cx, cy))
            if st == "info-fails":
                raise SCPTimeout("chip does not answer")
            up = st in ("ok", "probe-fails")
            r = Reply(cmd, 0)
            r.arg1 = 18 | (0x3f << 8) | (1023 << 14) | (int(up) << 25)
            ip = int.from_bytes(bytes([10, 0, cx, cy]), "little")
            r.data = struct.pack("<18BHI", *([int(consts.AppState.idle)] * 18 + [0, ip]))
            return r
        return Reply(cmd, 0)


class FakeConnection(object):
    """Stands for an SCPConnection; same method signatures as the real class."""
    def __init__(self, host=None, port=None, n_tries=5, timeout=0.5, ident=None):
        self.host = host
        self.ident = ident
        self.closed = False
        m = MODE["machine"]
        if ident is None and m is not None and m.chip_of(host) is not None:
            self.ident = m.ident[m.chip_of(host)]          # a connection made by discover_connections()

    def send_scp(self, buffer_size, x, y, p, cmd, arg1=0, arg2=0, arg3=0, data=b'', expected_args=3,
                 timeout=0.0):
        TRACE.append([self.ident, 0, enc(x), enc(y), enc(p), enc(cmd), enc(arg1), enc(arg2), enc(arg3)])
        self._refuse()
        if INTERRUPT["next_stop"] is not None and cmd == int(consts.SCPCommands.signal) \
                and isinstance(arg2, int) and (arg2 >> 16) & 0xff == int(consts.AppSignal.stop):
            exc, INTERRUPT["next_stop"] = INTERRUPT["next_stop"], None
            raise exc()          # e.g. Ctrl-C while waiting for the acknowledgement
        if MODE["machine"] is not None:
            return MODE["machine"].answer(self, x, y, int(cmd))
        return Reply(cmd if isinstance(cmd, int) else -1, arg2)

    def _refuse(self):
        if REFUSE["next"] is not None:
            from rig.machine_control import scp_connection
            name, REFUSE["next"] = REFUSE["next"], None
            if name == "FatalReturnCodeError":
                raise scp_connection.FatalReturnCodeError(0x88)        # one chip refuses one command
            raise scp_connection.TimeoutError("no acknowledgement")

    def read(self, buffer_size, window_size, x, y, p, address, length_bytes):
        TRACE.append([self.ident, 1, enc(x), enc(y), enc(p), None, enc(address), enc(length_bytes), None])
        self._refuse()
        if MODE["machine"] is not None:
            return MODE["machine"].answer(self, x, y, "read", address, length_bytes)
        return b"\0" * (length_bytes if isinstance(length_bytes, int) and 0 <= length_bytes < 1 << 20 else 0)

    def write(self, buffer_size, window_size, x, y, p, address, data):
        TRACE.append([self.ident, 2, enc(x), enc(y), enc(p), None, enc(address), enc(len(data)), None])
        self._refuse()

    def close(self):
        self.closed = True


class FakeTime(object):
    @staticmethod
    def sleep(s):
        pass

    @staticmethod
    def time():
        return 0.0


mcmod.SCPConnection = FakeConnection
bmpmod.SCPConnection = FakeConnection
mcmod.time = FakeTime
bmpmod.time = FakeTime

_TMP = tempfile.NamedTemporaryFile(prefix="c18-", suffix=".aplx", delete=False)
_TMP.write(b"\x01\x02\x03\x04")
_TMP.close()
APLX = _TMP.name


def entry():
    return RoutingTableEntry({Routes.north}, 0x1, 0xf)


def materialise(cls, method, name, v):
    """Python object for a value of the case.  Integers, None and booleans are themselves, except where the
    parameter is an enumeration given by name in normal use; a token is an object fit for that parameter."""
    if isinstance(v, dict) and "seq" in v:
        # a collection of boards, in every form Python offers -- including one-shot iterators
        q = list(v["seq"])
        kind = v.get("kind", "list")
        return {"list": lambda: q, "tuple": lambda: tuple(q), "set": lambda: set(q),
                "generator": lambda: (b for b in q), "iter": lambda: iter(q),
                "reversed": lambda: reversed(q[::-1]), "map": lambda: map(int, q),
                "dict-keys": lambda: dict.fromkeys(q).keys()}[kind]()
    if isinstance(v, dict):
        k = v["t"]
        if name == "data":
            return 0x5a if method == "fill" else b"abcd"
        if name == "struct_name":
            return "sv"
        if name == "field_name":
            return "cpu_state" if "vcpu" in method else "p2p_dims"
        if name in ("values", "value"):
            return 1
        if name == "addr":
            return "127.0.0.1" if method == "iptag_set" else 0x40
        if name == "routing_tables":
            return {(k % 8, (k // 8) % 8): [entry()]}
        if name == "entries":
            return [entry()]
        if name == "state":
            if cls != "MC":
                return bool(k % 2)
            # count_cores_in_state accepts one state or any iterable of states
            return {0: "wait", 1: ["wait", "run"], 2: ("sync0", "sync1", "idle"), 3: "run"}[k % 4]
        if name == "action":
            return bool(k % 2)
        if name == "address":
            return 0x60000000 + 4 * k
        if name in ("delay", "post_power_on_delay", "poll_interval", "app_start_delay"):
            return 0.0
        if name == "timeout":
            return None
        if name == "*map":
            return {APLX: {(k % 8, (k // 8) % 8): {1}}}
        if name == "*file":
            return APLX
        if name == "*targets":
            return {(k % 8, (k // 8) % 8): {1}}
        return 7 + k
    if name == "signal" and isinstance(v, int) and not isinstance(v, bool):
        try:
            return consts.AppSignal(v).name
        except ValueError:
            return v
    return v


def varargs_names(method, n):
    if method in ("flood_fill_aplx", "load_application"):
        return ["*map"] if n == 1 else ["*file", "*targets"] + ["*x"] * (n - 2)
    return ["*cmd"] * n


_PARAMS = {}


def param_names(klass, method):
    """positional parameter names (after self) of the function the context wrapper wraps"""
    key = (klass, method)
    if key not in _PARAMS:
        import inspect
        f = getattr(klass, method, None)
        f = getattr(f, "__wrapped__", f)
        try:
            _PARAMS[key] = list(inspect.getfullargspec(f).args[1:])
        except TypeError:
            _PARAMS[key] = []
    return _PARAMS[key]


def snapshot(c):
    raw = None
    st = getattr(c, "_ContextMixin__context_stack", None)
    if st is not None:
        raw = [[[k, enc(v)] for k, v in ctx.context_arguments.items()] for ctx in st]
    merged = [[k, enc(v)] for k, v in c.get_context_arguments().items()]
    return raw, merged


def exc_name(e):
    return None if e is None else type(e).__name__


def discover(case, c):
    """Run the real discover_connections() against the simulated machine; -> (state left, exception)"""
    d = case["discover"]
    err = None
    # commands before anything is known about the machine (they go over the initial connection); their only
    # purpose is to have been issued -- whatever the controller remembers of them must not matter later
    MODE["machine"] = Machine(d)
    try:
        for xy, st in d["eth"][:4]:
            try:
                c.get_chip_info(xy[0], xy[1])
            except Exception:
                pass
        try:
            c.discover_connections(255, 255)       # explicitly via the chip the initial connection is attached to
        except Exception as e:
            err = type(e).__name__
        if case.get("discover2") and err is None:
            # the machine changes (e.g. boards are removed: it shrinks) and is discovered again
            MODE["machine"] = Machine(case["discover2"])
            try:
                c.discover_connections(255, 255)       # explicitly via the chip the initial connection is attached to
            except Exception as e:
                err = "second run: " + type(e).__name__
    finally:
        MODE["machine"] = None
    after = dict(width=c._width, height=c._height,
                 root=None if c._root_chip is None else list(c._root_chip),
                 conns=sorted([list(k), v.ident] for k, v in c.connections.items() if k is not None),
                 closed=sorted(list(k) for k, v in c.connections.items() if k is not None and v.closed))
    return after, err


def build(case):
    kw = {}
    if case.get("init") is not None:
        kw["initial_context"] = {k: v for k, v in case["init"]}
    ctl = case["ctl"]
    if case["cls"] == "MC":
        c = mcmod.MachineController("initial-host", **kw)
        c.connections[None].ident = 0
        if case.get("discover"):
            c._scp_data_length = 256
            case["_after"] = discover(case, c)
            return c
        for xy, ident in ctl["conns"]:
            c.connections[tuple(xy)] = FakeConnection(ident=ident)
        c._width = ctl["width"]
        c._height = ctl["height"]
        c._root_chip = None if ctl["root"] is None else tuple(ctl["root"])
        c._scp_data_length = 256
    else:
        c = bmpmod.BMPController({tuple(k): "host-%d" % ident for k, ident in ctl["bmp"]}, **kw)
        for k, ident in ctl["bmp"]:
            c.connections[tuple(k)].ident = ident
        c._scp_data_length = 256
    return c


def run_case(case):
    del TRACE[:]
    cls = case["cls"]
    c = build(case)
    del TRACE[:]
    kept = {}          # Context objects kept in variables
    kept_apps = {}     # application contexts kept in variables
    events = []

    def args_of(method, pos, kw):
        names = param_names(type(c), method)
        extra = varargs_names(method, max(0, len(pos) - len(names)))
        pnames = list(names[:len(pos)]) + extra
        return ([materialise(cls, method, n, v) for n, v in zip(pnames, pos)],
                {k: materialise(cls, method, k, v) for k, v in kw})

    def run_ops(ops):
        for op in ops:
            kind = op[0]
            if kind == "call":
                _, m, pos, kw, propagate = op
                a, k = args_of(m, pos, kw)
                mark = len(TRACE)
                err = None
                try:
                    getattr(c, m)(*a, **k)
                except HarnessRaise:
                    raise
                except Exception as e:
                    err = e
                events.append(["call", m, TRACE[mark:], exc_name(err)])
                if err is not None and propagate and len(TRACE) == mark:
                    raise err          # a rejection travels outward; failures after a send are caught here
            elif kind in ("with", "withcb"):
                before = snapshot(c)
                events.append(["stack", "enter", before[0], before[1]])
                var = op[3] if len(op) > 3 and kind == "with" else None
                if var is None:
                    ctx = c(**{k: materialise(cls, "__call__", k, v) for k, v in op[1]})
                else:
                    if var not in kept:
                        kept[var] = c(**{k: materialise(cls, "__call__", k, v) for k, v in op[1]})
                    ctx = kept[var]
                if kind == "withcb":
                    def boom(exc=RAISABLE[op[3]]):
                        raise exc()
                    ctx.before_close(boom)
                try:
                    with ctx:
                        run_ops(op[2])
                finally:
                    after = snapshot(c)
                    events.append(["stack", "exit", after[0], after[1]])
            elif kind == "app":
                before = snapshot(c)
                a, k = args_of("application", op[1], op[2])
                avar = op[5] if len(op) > 5 else None
                try:
                    if avar is not None and avar in kept_apps:
                        ctx = kept_apps[avar]             # app = c.application(n) kept in a variable, entered again
                    else:
                        ctx = c.application(*a, **k)
                        if avar is not None:
                            kept_apps[avar] = ctx
                except Exception as e:
                    events.append(["call", "application", [], exc_name(e)])
                    raise
                events.append(["stack", "enter", before[0], before[1]])
                body_exc = []
                mark = [len(TRACE)]
                try:
                    with ctx:
                        try:
                            run_ops(op[3])
                        except BaseException as e:
                            body_exc.append(e)
                            raise
                        finally:
                            mark[0] = len(TRACE)
                            if len(op) > 4 and op[4]:
                                INTERRUPT["next_stop"] = RAISABLE[op[4]]
                except BaseException as e2:
                    INTERRUPT["next_stop"] = None
                    stop_exc = None if (body_exc and e2 is body_exc[0]) else e2
                    events.append(["stop", TRACE[mark[0]:], exc_name(stop_exc)])
                    raise
                else:
                    INTERRUPT["next_stop"] = None
                    events.append(["stop", TRACE[mark[0]:], None])
                finally:
                    after = snapshot(c)
                    events.append(["stack", "exit", after[0], after[1]])
            elif kind == "callrefused":
                # the machine refuses the first command of this call: the SCPError travels outward
                _, m, pos, kw, excname = op
                a, k = args_of(m, pos, kw)
                mark = len(TRACE)
                err = None
                REFUSE["next"] = excname
                try:
                    getattr(c, m)(*a, **k)
                except Exception as e:
                    err = e
                finally:
                    REFUSE["next"] = None
                events.append(["call", m, TRACE[mark:], exc_name(err)])
                if err is not None:
                    raise err
            elif kind == "ctxupdate":
                # the public Context.update() of a kept Context object that is currently entered
                kept[op[1]].update({k: materialise(cls, "__call__", k, v) for k, v in op[2]})
            elif kind == "getargs":
                # a caller looks at the arguments in force and edits the dictionary it was handed
                d = c.get_context_arguments()
                how = op[1]
                if how == "clear":
                    d.clear()
                elif how == "pop":
                    for key in list(d)[:1]:
                        d.pop(key)
                else:
                    d.update({k: materialise(cls, "__call__", k, v) for k, v in op[2]})
            elif kind == "update":
                c.update_current_context(**{k: materialise(cls, "__call__", k, v) for k, v in op[1]})
            elif kind == "raise":
                raise HarnessRaise()
            elif kind == "try":
                try:
                    run_ops(op[1])
                except CAUGHT:
                    pass
            else:
                raise ValueError("unknown op %r" % (kind,))

    raised = False
    INTERRUPT["next_stop"] = None
    try:
        run_ops(case["ops"])
    except CAUGHT:
        raised = True
    final = snapshot(c)
    res = dict(events=events, stack=final[0], merged=final[1], raised=raised)
    if "_after" in case:
        res["ctl_after"], res["discover_exc"] = case["_after"]
    return res


if __name__ == "__main__":
    import implutil
    try:
        implutil.run_cases(run_case, per_case_s=10)
    finally:
        try:
            os.unlink(APLX)
        except OSError:
            pass
