"""Drive rig.bitfield.BitField through JSON-described histories (runs under /venv/bin/python,
PYTHONPATH=/repo).  The driver has no logic of its own: it performs the operations, classifies the
exceptions and reports what the public API returns.

case = {"L": int, "ops": [op, ...], "probes": [[[ident, value], ...], ...] (optional), "tags": [...]}
op   = ["add", inst, ident, length|null, start|null, [tag, ...]] | ["call", inst, [[ident, value], ...]]
     | ["assign", inst] | ["value", inst, tag|null, field|null] | ["mask", inst, tag|null, field|null]
     | ["tags", inst, field] | ["loc", inst, field] | ["attr", inst, field] | ["enabled", inst]
     | ["potential", inst]
Identifiers and tags are integers in the JSON (names "f<n>" / "t<n>" in Python)."""
import sys
from math import log

from rig.bitfield import BitField, UnavailableFieldError, UnknownTagError


def fname(i):
    return "f%d" % i


def tname(t):
    return "t%d" % t


def classify(e):
    if isinstance(e, UnavailableFieldError):
        return ["err", 1]
    if isinstance(e, UnknownTagError):
        return ["err", 2]
    if isinstance(e, ValueError):
        return ["err", 0]
    return ["other", type(e).__name__]


def fdump(pairs):
    return [[int(i[1:]), f.length, f.start_at, f.max_value, sorted(int(t[1:]) for t in f.tags)]
            for i, f in pairs]


def dump_tree(node, store):
    """The real object's tree, for the verified checker: fields get numbers in dump order."""
    fs = []
    for i, f in node.fields.items():
        fs.append([int(i[1:]), len(store)])
        store.append([f.length, f.start_at, sorted(int(t[1:]) for t in f.tags), f.max_value])
    cs = [[[[int(i[1:]), v] for i, v in req], dump_tree(c, store)] for req, c in node.children.items()]
    return [fs, cs]


def tags_arg(op, pool):
    """op[6] (optional) says in which form the tags are handed to add_field: "list" (default), "str", "none",
    "tuple", "frozenset", "set" (a fresh set), "gen" / "map" / "iter" (one-shot iterators) or "shared:<k>": ONE set object per k for the whole case (and its
    pre-history), created from the tags of its first use and passed again, as the same object, later."""
    names = [tname(t) for t in op[5]]
    mode = op[6] if len(op) > 6 else "list"
    if mode == "str":
        return " ".join(names)
    if mode == "none":
        return None if not names else names
    if mode == "tuple":
        return tuple(names)
    if mode == "frozenset":
        return frozenset(names)
    if mode == "set":
        return set(names)
    if mode == "gen":                      # one-shot iterators: can be consumed only once
        return (x for x in names)
    if mode == "map":
        return map(str, names)
    if mode == "iter":
        return iter(names)
    if mode.startswith("shared:"):
        k = mode[7:]
        if k not in pool:
            pool[k] = set(names)
        return pool[k]
    return names


def run_pre(ops, L, pool):
    """operations on another BitField of the same process (outputs ignored) that shares the pool of tag sets"""
    root = BitField(L)
    insts = [root]
    for op in ops:
        b = insts[op[1]] if op[1] < len(insts) else insts[0]
        try:
            if op[0] == "add":
                b.add_field(fname(op[2]), length=op[3], start_at=op[4], tags=tags_arg(op, pool))
            elif op[0] == "call":
                insts.append(b(**{fname(i): v for i, v in op[2]}))
            elif op[0] == "assign":
                b.assign_fields()
        except Exception:
            pass


def taken(tags, k):
    """the caller owns what get_tags returns: record it, then edit the returned set in place"""
    out = sorted(int(t[1:]) for t in tags)
    try:
        if k % 3 == 0:
            tags.clear()
        elif k % 3 == 1:
            tags |= {"t1", "t2", "t3", "t9"}
        else:
            tags.discard("t1"); tags.discard("t2"); tags.add("t3")
    except AttributeError:
        pass
    return out


def run_case(c):
    pool = {}
    if c.get("pre_ops"):
        run_pre(c["pre_ops"], c["L"], pool)
    root = BitField(c["L"])
    insts = [root]
    adds = []                      # (op index, instance, name) of every successful add_field
    outs = []

    def inst(n):
        return insts[n] if n < len(insts) else insts[0]

    def snapshot():
        snap = []
        for k, b, name in adds:
            try:
                s, l = b.get_location_and_length(name)
                snap.append([k, s, l, taken(b.get_tags(name), k + len(outs))])
            except Exception as e:
                snap.append([k, None, None, classify(e)])
        return snap

    for k, op in enumerate(c["ops"]):
        kind = op[0]
        b = inst(op[1])
        try:
            if kind == "add":
                b.add_field(fname(op[2]), length=op[3], start_at=op[4], tags=tags_arg(op, pool))
                adds.append((k, b, fname(op[2])))
                r = ["none"]
            elif kind == "call":
                nb = b(**{fname(i): v for i, v in op[2]})
                insts.append(nb)
                r = ["inst", len(insts) - 1]
            elif kind == "assign":
                b.assign_fields()
                r = ["none", snapshot()]
            elif kind == "value":
                v = b.get_value(tag=None if op[2] is None else tname(op[2]),
                                field=None if op[3] is None else fname(op[3]))
                r = ["z", v, snapshot()]
            elif kind == "mask":
                v = b.get_mask(tag=None if op[2] is None else tname(op[2]),
                               field=None if op[3] is None else fname(op[3]))
                r = ["z", v, snapshot()]
            elif kind == "tags":
                r = ["tags", taken(b.get_tags(fname(op[2])), k)]
            elif kind == "loc":
                s, l = b.get_location_and_length(fname(op[2]))
                r = ["pair", s, l]
            elif kind == "attr":
                r = ["opt", getattr(b, fname(op[2]))]
            elif kind == "enabled":
                r = ["fields", fdump(b.fields.enabled_fields(b.field_values))]
            elif kind == "potential":
                r = ["fields", fdump(b.fields.potential_fields(b.field_values))]
            else:
                r = ["other", "bad-op"]
        except RecursionError:
            r = ["other", "RecursionError"]
        except Exception as e:
            r = classify(e)
            if kind == "assign" and r[0] == "err":
                r = r + [snapshot()]
        outs.append(r)
        if r[0] == "other":
            break                       # the object may be left in an arbitrary state
    res = {"outs": outs}
    if outs and outs[-1][0] == "other":
        return res
    store = []
    res["layout"] = [dump_tree(root.fields, store), store]
    if "probes" in c:
        pr = []
        for fv in c["probes"]:
            try:
                nb = root(**{fname(i): v for i, v in fv})
                one = [nb.get_value(), nb.get_mask(), {}]
                for t in c.get("tags", []):
                    try:
                        one[2][str(t)] = ["z", nb.get_mask(tag=tname(t)), nb.get_value(tag=tname(t))]
                    except Exception as e:
                        one[2][str(t)] = classify(e)
                pr.append(["ok"] + one)
            except Exception as e:
                pr.append(classify(e))
        res["probes"] = pr
        res["snapshot"] = snapshot()
    return res


def run_autolen(c):
    """Length chosen by the code for an automatically sized field whose largest value is v."""
    out = []
    for v in c["values"]:
        b = BitField(200)
        b.add_field("a")
        b(a=v)
        b.assign_fields()
        out.append(b.get_location_and_length("a")[1])
    return {"lens": out}


def dispatch(c):
    if "values" in c:
        return run_autolen(c)
    return run_case(c)


if __name__ == "__main__":
    import implutil
    sys.setrecursionlimit(1000)
    implutil.run_cases(dispatch, per_case_s=10)
