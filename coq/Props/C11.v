(* C11 -- Hexagonal mesh and torus path functions return true shortest paths.
   Property theorems only; each is closed by `exact` of a lemma of Proofs/Geometry.v or
   Proofs/GeometryHex.v.

   What the statements are about.  shortest_mesh_path_length, shortest_torus_path_length, minimise_xyz,
   to_xyz, Links.from_vector / to_vector / opposite are the definitions of Generated/GenGeometry.v,
   translated from the current text of rig/geometry.py and rig/links.py on every run (with the live
   link tables of Generated/GenGeometryLinks.v).  shortest_mesh_path, shortest_torus_path,
   longest_dimension_first, concentric_hexagons are the models of Model/Geometry.v: their loops, the
   min / sorted calls and the generator are hand-written skeletons, matched against the source on every
   run, while the arithmetic and the constants inside them (Generated/GenGeometryShapes.v) are translated
   from the current text: torus_head, torus_approaches_src, torus_spiral, mesh_path_component,
   hexagon_dirs / first_ring / layer_step are what the models execute; ldf_sign, ldf_count, ldf_delta_src,
   ldf_advance are proved equal to the model's definitions (C11_ldf_source_tie).  The models are compared
   with the implementation on every run.  "Distance" is never a formula: Spec/Geometry.v defines the mesh and
   the torus as graphs over the six link vectors and the distance as the least length of a walk.

   Not covered by a theorem (oracle + correspondence only): argument containers (lists, numpy arrays and
   scalars, one-shot iterables), float-valued vectors, state between calls (abandoned generators, results
   modified by the caller), and the Python exception classes themselves.

   Random draws: random.random() = k / 2^53 is the argument k (any integer for shortest_torus_path,
   whose tie-break only compares draws; 0 <= k < 2^53 for longest_dimension_first, whose key is a float
   sum); random.randint is the function argument rint, constrained only by its contract. *)
From Coq Require Import ZArith List Bool.
Require Import Rig.Model.Base Rig.Generated.GenGeometryLinks Rig.Generated.GenGeometry
        Rig.Generated.GenGeometryShapes Rig.Model.Geometry Rig.Spec.Geometry Rig.Proofs.Geometry Rig.Proofs.GeometryHex.
Import ListNotations.
Open Scope Z_scope.

(* ---- mesh: the reported length is the graph distance, for all three-axis representations *)
Theorem C11_mesh_length_is_distance :
  forall s d, is_mesh_distance (to2d s) (to2d d) (shortest_mesh_path_length s d).
Proof. exact mesh_length_is_distance. Qed.

(* the reported vector has exactly that many hops and leads from the source to the destination, both
   arithmetically and as the walk of links it denotes *)
Theorem C11_mesh_path_vector :
  forall s d,
    hops (shortest_mesh_path s d) = shortest_mesh_path_length s d /\
    chip_add (to2d s) (to2d (shortest_mesh_path s d)) = to2d d /\
    mesh_walk (to2d s) (vector_walk (shortest_mesh_path s d)) = to2d d /\
    len (vector_walk (shortest_mesh_path s d)) = shortest_mesh_path_length s d.
Proof. exact mesh_path_vector. Qed.

(* ---- torus: every width and height >= 1 (1 x N and 2 x N included) *)
Theorem C11_torus_length_is_distance :
  forall s d w h, 1 <= w -> 1 <= h ->
    is_torus_distance w h (wrap w h (to2d s)) (wrap w h (to2d d)) (shortest_torus_path_length s d w h).
Proof. exact torus_length_is_distance. Qed.

(* every outcome of the four tie-break draws and of the spiral draw *)
Theorem C11_torus_path_vector :
  forall k0 k1 k2 k3 rint s d w h, 1 <= w -> 1 <= h -> randint_contract rint ->
    exists v, shortest_torus_path k0 k1 k2 k3 rint s d w h = Ok v /\
              hops v = shortest_torus_path_length s d w h /\
              wrap w h (chip_add (to2d s) (to2d v)) = wrap w h (to2d d) /\
              torus_walk w h (wrap w h (to2d s)) (vector_walk v) = wrap w h (to2d d) /\
              len (vector_walk v) = shortest_torus_path_length s d w h.
Proof. exact torus_path_vector. Qed.

(* the guards 1 <= w, 1 <= h are exactly the domain: a zero size is the only error.  NB: these two theorems
   are definitional -- the OtherError branch is the model wrapper's own test `w = 0 || h = 0`; that the
   code really raises ZeroDivisionError there (and nowhere else) is established by the run-time
   correspondence (malformed stream), not by a theorem. *)
Theorem C11_torus_path_error :
  forall k0 k1 k2 k3 rint s d w h,
    shortest_torus_path k0 k1 k2 k3 rint s d w h = OtherError <-> (w = 0 \/ h = 0).
Proof. exact torus_path_error. Qed.

Theorem C11_torus_length_error :
  forall s d w h, torus_path_length_checked s d w h = OtherError <-> (w = 0 \/ h = 0).
Proof. exact torus_length_error. Qed.

(* History (repaired in /repo by commit e32a46f): the code as found keyed the approaches by the float
   sum distance + random(); for the legal draws 0 and 1 - 2^-53 it returned a two-hop vector between
   chips at distance one. *)
Theorem C11_torus_path_float_key_refuted :
  exists k0 k1 k2 k3 rint s d w h v,
    0 <= k0 < two53 /\ 0 <= k1 < two53 /\ 0 <= k2 < two53 /\ 0 <= k3 < two53 /\
    randint_contract rint /\ 1 <= w /\ 1 <= h /\
    shortest_torus_path_orig k0 k1 k2 k3 rint s d w h = Ok v /\
    hops v <> shortest_torus_path_length s d w h.
Proof. exact torus_path_float_key_refuted. Qed.

(* all three-axis representations of the same chips give the same lengths; to_xyz is one of them *)
Theorem C11_lengths_independent_of_representation :
  forall s d s' d', to2d s = to2d s' -> to2d d = to2d d' ->
    shortest_mesh_path_length s d = shortest_mesh_path_length s' d' /\
    forall w h, shortest_torus_path_length s d w h = shortest_torus_path_length s' d' w h.
Proof. exact lengths_independent_of_representation. Qed.

Theorem C11_to_xyz : forall xy, to2d (to_xyz xy) = xy.
Proof. exact to_xyz_to2d. Qed.

(* ---- longest dimension first: for every outcome of the three draws, with or without wrapping *)
Theorem C11_ldf_walk :
  forall k0 k1 k2 v start width height,
    0 <= k0 < two53 -> 0 <= k1 < two53 -> 0 <= k2 < two53 -> size_ok width -> size_ok height ->
    exists out, longest_dimension_first k0 k1 k2 v start width height = Ok out /\
                ldf_spec v start width height out.
Proof. exact ldf_walk. Qed.

(* ---- links *)
Theorem C11_links_members : links_members = map link_num all_links.
Proof. exact links_members_are_the_six. Qed.

Theorem C11_links_to_vector : forall l, links_to_vector (link_num l) = Some (link_vec l).
Proof. exact links_to_vector_spec. Qed.

Theorem C11_links_opposite : forall l, links_opposite (link_num l) = link_num (link_opp l).
Proof. exact links_opposite_spec. Qed.

Theorem C11_links_opposite_involutive :
  forall l, links_opposite (links_opposite (link_num l)) = link_num l.
Proof. exact links_opposite_involutive. Qed.

Theorem C11_links_opposite_vector :
  forall l, links_to_vector (links_opposite (link_num l)) = Some (- fst (link_vec l), - snd (link_vec l)).
Proof. exact links_opposite_vector. Qed.

Theorem C11_links_from_to_vector : forall l, links_from_vector (link_vec l) = Some (link_num l).
Proof. exact links_from_to_vector. Qed.

Theorem C11_links_from_vector_only_links :
  forall v n, links_from_vector v = Some n -> exists l, link_num l = n.
Proof. exact links_from_vector_only_links. Qed.

(* the difference of two chips joined by a wrap-around link is mapped back to that link on every
   system larger than 2 x 2 (the domain stated by from_vector's docstring) *)
Theorem C11_links_from_vector_wrap :
  forall w h p l, 3 <= w -> 3 <= h -> 0 <= fst p < w -> 0 <= snd p < h ->
    links_from_vector (chip_sub (torus_step w h p l) p) = Some (link_num l).
Proof. exact links_from_vector_wrap. Qed.

(* hence on such a torus the label of a step of a walk is the only link joining the two chips (on 1 x N and
   2 x N tori several links join the same chips and `labelled_walk` only asks for one of them, as the
   docstring of from_vector says) *)
Theorem C11_torus_link_unique :
  forall w h p l1 l2, 3 <= w -> 3 <= h -> 0 <= fst p < w -> 0 <= snd p < h ->
    torus_step w h p l1 = torus_step w h p l2 -> l1 = l2.
Proof. exact torus_link_unique. Qed.

(* ---- concentric hexagons: no duplicates, exactly the chips within distance R, nearest ring first *)
Theorem C11_hexagons_spec :
  forall R start, 0 <= R -> hexagons_spec R start (concentric_hexagons R start).
Proof. exact hexagons_ok. Qed.

(* the guard 0 <= R is the generator's domain: for a negative radius it still yields the centre, which is
   not within a negative distance of anything *)
Theorem C11_hexagons_negative_radius :
  forall R start, R < 0 -> concentric_hexagons R start = [start].
Proof. exact hexagons_negative_radius. Qed.

(* a generator consumed part-way (abandoned, suspended, or of a huge radius): what it has yielded is the
   beginning of the list of every smaller radius that is long enough -- independent of the radius asked *)
Theorem C11_hexagons_prefix :
  forall r R start, 0 <= r <= R ->
    exists tail, concentric_hexagons R start = concentric_hexagons r start ++ tail.
Proof. exact hexagons_prefix. Qed.

Theorem C11_hexagons_prefix_firstn :
  forall n r R start, 0 <= r <= R -> (n <= length (concentric_hexagons r start))%nat ->
    firstn n (concentric_hexagons R start) = firstn n (concentric_hexagons r start).
Proof. exact hexagons_prefix_firstn. Qed.

(* ---- error clauses *)
(* Links.from_vector raises KeyError exactly on the null vector *)
Theorem C11_links_from_vector_error : forall v, links_from_vector v = None <-> v = (0, 0).
Proof. exact links_from_vector_error. Qed.

(* a zero width / height raises (ZeroDivisionError) at the first step; a null vector makes no step *)
Theorem C11_ldf_zero_size_error :
  forall k0 k1 k2 v start width height,
    0 <= k0 < two53 -> 0 <= k1 < two53 -> 0 <= k2 < two53 ->
    size_zero width || size_zero height = true ->
    longest_dimension_first k0 k1 k2 v start width height =
    if hops v =? 0 then Ok [] else OtherError.
Proof. exact ldf_zero_size_error. Qed.

(* ---- tie of longest_dimension_first's arithmetic to the source: the `sign = ...` expression, the repeat
   count, the if / elif choosing (dx, dy) and the four statements advancing and wrapping (x, y), each
   translated from the current text, equal the definitions the model uses *)
Theorem C11_ldf_source_tie :
  (forall m, ldf_sign m = (if m >? 0 then 1 else -1)) /\
  (forall m, ldf_count m = Z.abs m) /\
  (forall dim sign, 0 <= dim <= 2 -> ldf_delta_src dim sign = ldf_delta dim sign) /\
  (forall x y dx dy width height,
      size_zero width || size_zero height = false ->
      bind (wrapo width (x + dx)) (fun x' => bind (wrapo height (y + dy)) (fun y' => Ok (x', y'))) =
      Ok (ldf_advance x y dx dy (has_size width) (size_val width) (has_size height) (size_val height))).
Proof. exact ldf_source_tie. Qed.

(* ---- the dumped dictionaries of rig/links.py *)
Theorem C11_links_direction_table_sound :
  forall k v, direction_link_lookup k = Some v -> exists l, k = link_num l /\ v = link_vec l.
Proof. exact direction_link_lookup_sound. Qed.

Theorem C11_links_lookup_table_links :
  Forall (fun e => exists l, snd e = link_num l) link_direction_table.
Proof. exact link_direction_table_links. Qed.

(* ---- the hypotheses are satisfiable, the conclusions not vacuous *)
Example C11_hexagons_instance :
  concentric_hexagons 1 (0, 0) = [(0, 0); (0, -1); (1, 0); (1, 1); (0, 1); (-1, 0); (-1, -1)] /\ 0 <= 1.
Proof. exact ex_hexagons. Qed.

Example C11_torus_path_instance :
  shortest_torus_path 0 0 0 0 ex_rint (0, 0, 0) (5, 0, 0) 20 2 = Ok (1, 0, -4) /\
  shortest_torus_path_length (0, 0, 0) (5, 0, 0) 20 2 = 5 /\ randint_contract ex_rint.
Proof. exact ex_torus_path. Qed.

Example C11_ldf_instance :
  longest_dimension_first 0 0 0 (1, 0, -4) (0, 0) (Some 20) (Some 2) =
  Ok [(1, (1, 1)); (1, (2, 0)); (1, (3, 1)); (1, (4, 0)); (0, (5, 0))] /\
  0 <= 0 < two53 /\ size_ok (Some 20) /\ size_ok (Some 2).
Proof. exact ex_ldf. Qed.
