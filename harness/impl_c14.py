"""Drive rig's probing functions (MachineController.get_software_version / get_system_info / get_machine /
get_processor_status / get_iobuf[_bytes] / get_router_diagnostics / ..., place_and_route.utils.build_machine /
build_core_constraints, routing_table.utils.build_routing_table_target_lengths) against the simulated
machine of harness/sim_machine_c14.py.  Runs under /venv/bin/python with PYTHONPATH=/repo:/verif/harness.

Nothing of /repo is edited: the modules `socket`, `select`, `time` seen by rig.machine_control.scp_connection
are replaced from outside, so the real SCPConnection / SCPPacket / MachineController code runs, datagram by
datagram, against the simulator.  JSON list of machine states on stdin -> JSON list of observations."""
import warnings

import rig.machine_control.scp_connection as scp_connection
from rig.machine_control import MachineController
from rig.machine_control.scp_connection import SCPError
from rig.machine_control.machine_controller import SystemInfo, ChipInfo
from rig.machine_control import consts
from rig.links import Links
from rig.place_and_route.machine import Machine, Cores, SDRAM, SRAM
from rig.place_and_route.utils import build_machine, build_core_constraints
from rig.place_and_route.constraints import ReserveResourceConstraint
from rig.routing_table.utils import build_routing_table_target_lengths

import sim_machine_c14 as sim


def err(e):
    return ["err", "scp" if isinstance(e, SCPError) else type(e).__name__]


def chars(s):
    """Code points of a string; anything else (a value in the wrong place) is shown through its repr."""
    return [ord(ch) for ch in (s if isinstance(s, str) else "<%r>" % (s,))]


def chip_info(ci):
    ok = (isinstance(ci, ChipInfo) and all(isinstance(s, consts.AppState) for s in ci.core_states)
          and all(isinstance(l, Links) for l in ci.working_links) and isinstance(ci.working_links, set)
          and isinstance(ci.ethernet_up, bool) and isinstance(ci.ip_address, str))
    return [int(ci.num_cores), [int(s) for s in ci.core_states], sorted(int(l) for l in ci.working_links),
            int(ci.largest_free_sdram_block), int(ci.largest_free_sram_block),
            int(ci.largest_free_rtr_mc_block), 1 if ci.ethernet_up else 0, chars(ci.ip_address),
            int(ci.local_ethernet_chip[0]) if isinstance(ci.local_ethernet_chip, tuple) else -1,
            int(ci.local_ethernet_chip[1]) if isinstance(ci.local_ethernet_chip, tuple) else -1, ok]


def machine_out(m, order):
    """order: chip -> position in the system description (canonical order of the sets)."""
    key3 = lambda t: (order.get((t[0], t[1]), 1 << 30), t[0], t[1], int(t[2]))
    res = lambda d: [d[Cores], d[SDRAM], d[SRAM]] if set(d) == {Cores, SDRAM, SRAM} else ["badkeys"]
    return dict(w=m.width, h=m.height, res=res(m.chip_resources),
                exc=[[x, y] + res(r) for (x, y), r in m.chip_resource_exceptions.items()],
                dead_chips=sorted([x, y] for x, y in m.dead_chips),
                dead_links=[[x, y, int(l)] for x, y, l in sorted(m.dead_links, key=key3)],
                links_typed=all(isinstance(l, Links) for _, _, l in m.dead_links))


def describe(si, c):
    """Everything that is derived from a SystemInfo without talking to the machine: the description, its views, the
    place-and-route machine, the reservations, the table lengths."""
    out = {}
    order = {chip: i for i, chip in enumerate(si)}
    out["sysinfo"] = ["ok", si.width, si.height, [[x, y] + chip_info(ci) for (x, y), ci in si.items()]]
    key3 = lambda t: (order.get((t[0], t[1]), 1 << 30), t[0], t[1], int(t[2]))
    out["si_chips"] = [list(xy) for xy in si.chips()]
    out["si_dead_chips"] = [list(xy) for xy in si.dead_chips()]
    out["si_links"] = [[x, y, int(l)] for x, y, l in sorted(si.links(), key=key3)]
    out["si_dead_links"] = [[x, y, int(l)] for x, y, l in sorted(si.dead_links(), key=key3)]
    out["si_cores"] = [[x, y, p, int(s)] for x, y, p, s in si.cores()]
    out["si_eth"] = [[xy[0], xy[1], chars(ip)] for xy, ip in si.ethernet_connected_chips()]
    q = []
    for x, y, p, l, s in c.get("contains_queries", []):
        row = []
        for item in ((x, y), (x, y, p), (x, y, Links(l)), (x, y, p, consts.AppState(s))):
            try:
                row.append(1 if item in si else 0)
            except Exception:
                row.append(2)
        q.append(row)
    out["si_contains"] = q
    # ---- the place-and-route machine, reservations, table lengths
    try:
        m = build_machine(si)
        out["machine"] = machine_out(m, order)
        qs = []
        for x, y in c["mq"]:
            inn = (x, y) in m
            r = m[(x, y)] if inn else None
            qs.append([x, y, 1 if inn else 0,
                       None if r is None else [r[Cores], r[SDRAM], r[SRAM]],
                       sum(1 << int(l) for l in Links if (x, y, l) in m)])
        out["machine_queries"] = qs
        out["machine_iter"] = [list(xy) for xy in m]
    except Exception as e:
        out["machine"] = err(e)
    try:
        cs = build_core_constraints(si)
        out["constraints"] = [[k.reservation.start, k.reservation.stop,
                               None if k.location is None else list(k.location),
                               isinstance(k, ReserveResourceConstraint) and k.resource is Cores
                               and k.reservation.step is None] for k in cs]
    except Exception as e:
        out["constraints"] = err(e)
    try:
        out["target_lengths"] = [[x, y, n] for (x, y), n in build_routing_table_target_lengths(si).items()]
    except Exception as e:
        out["target_lengths"] = err(e)
    return out, order


def copied(si, how):
    """The description after a trip through the standard copying protocols, or rebuilt positionally as the
    documented constructors allow."""
    import copy
    import pickle
    if how == "copy":
        return copy.copy(si)
    if how == "deepcopy":
        return copy.deepcopy(si)
    if how == "pickle":
        return pickle.loads(pickle.dumps(si, pickle.HIGHEST_PROTOCOL))
    if how == "pickle0":
        return pickle.loads(pickle.dumps(si, 0))
    if how == "items-deepcopy":
        return SystemInfo(si.width, si.height, [(xy, copy.deepcopy(ci)) for xy, ci in si.items()])
    if how == "positional":
        return SystemInfo(si.width, si.height, [(xy, ChipInfo(*tuple(ci))) for xy, ci in si.items()])
    if how == "replace":
        return SystemInfo(si.width, si.height, [(xy, ci._replace(num_cores=ci.num_cores)) for xy, ci in si.items()])
    raise ValueError(how)


def structs_for(layout):
    """The packaged sark.struct with the `sv` / `vcpu` fields moved as the layout says (what a user passes as
    MachineController(structs=...) for a machine running another build of the system software)."""
    import pkg_resources
    from rig.machine_control import struct_file
    st = struct_file.read_struct_file(pkg_resources.resource_string("rig", "boot/sark.struct"))
    sv, vc = st[b"sv"], st[b"vcpu"]
    sv.base = layout["sv_base"]
    for name, off in layout["sv"].items():
        if name.encode() in sv:
            sv[name.encode()] = sv[name.encode()]._replace(offset=off)
    vc.size = layout["vcpu_size"]
    for name, off in layout["vcpu"].items():
        vc[name.encode()] = vc[name.encode()]._replace(offset=off)
    return st


def run_case(c):
    """One machine state probed by a fresh controller -- or a history: the successive states are probed by ONE
    controller (the simulator's state is replaced between the probes, as a reboot would), or, when the case names
    several controllers (`ctrl` = the controller probing each state, `ctrl_layouts` = the struct layout each was
    created with), by several controllers living in this interpreter at the same time, each with its own machine."""
    stages = c["stages"] if "stages" in c else [c]
    net = sim.Net(sim.SimMachine(stages[0]))
    net.install(scp_connection)
    ctrl = c.get("ctrl", [0] * len(stages))
    layouts = c.get("ctrl_layouts", [None])
    mcs = {}
    outs = []
    for k, st in zip(ctrl, stages):
        if k not in mcs:
            with warnings.catch_warnings():
                warnings.simplefilter("ignore")
                mcs[k] = (MachineController("simulated-machine-%d" % k) if layouts[k] is None else
                          MachineController("simulated-machine-%d" % k, structs=structs_for(layouts[k])))
        net.machine = sim.SimMachine(st)
        net.queue = []
        outs.append(probe(mcs[k], net, st))
    return {"stages": outs} if "stages" in c else outs[0]


def probe(mc, net, c):
    out = {}
    # ---- software version (both encodings)
    out["sver"] = []
    for x, y, p in c.get("sver_queries", []):
        try:
            v = mc.get_software_version(x, y, p)
            out["sver"].append(["ok", list(v.position), v.physical_cpu, v.virt_cpu, list(v.software_version),
                                v.buffer_size, v.build_date, chars(v.version_string),
                                chars(v.software_version_labels)])
        except Exception as e:
            out["sver"].append(err(e))
    # ---- the system description
    try:
        si = mc.get_system_info()
    except Exception as e:
        out["sysinfo"] = err(e)
        out["datagrams"] = net.nsent
        return out
    d, order = describe(si, c)
    out.update(d)
    if c.get("copy"):
        try:
            out["copy"] = describe(copied(si, c["copy"]), c)[0]
        except Exception as e:
            out["copy"] = {"sysinfo": err(e)}
    # ---- the deprecated one-call path
    if c.get("also_get_machine"):
        try:
            with warnings.catch_warnings():
                warnings.simplefilter("ignore")
                m2 = mc.get_machine()
            out["get_machine"] = machine_out(m2, order)
        except Exception as e:
            out["get_machine"] = err(e)
    # ---- per-core status, console buffers, router counters
    out["probes"] = []
    for pr in c.get("probes", []):
        x, y = pr["chip"]
        p = pr["p"]
        o = {}
        try:
            st = mc.get_processor_status(p, x, y)
            o["status"] = ["ok", list(st.registers), st.program_state_register, st.stack_pointer,
                           st.link_register, int(st.rt_code), st.phys_cpu, int(st.cpu_state), st.mbox_ap_msg,
                           st.mbox_mp_msg, st.mbox_ap_cmd, st.mbox_mp_cmd, st.sw_count, st.sw_file,
                           st.sw_line, st.time, chars(st.app_name), st.iobuf_address, st.app_id,
                           list(st.version), list(st.user_vars),
                           isinstance(st.cpu_state, consts.AppState)
                           and isinstance(st.rt_code, consts.RuntimeException)]
        except Exception as e:
            o["status"] = err(e)
        try:
            o["iobuf_bytes"] = ["ok", list(bytearray(mc.get_iobuf_bytes(p, x, y)))]
        except Exception as e:
            o["iobuf_bytes"] = err(e)
        try:
            o["iobuf"] = ["ok", chars(mc.get_iobuf(p, x, y))]
        except Exception as e:
            o["iobuf"] = err(e)
        try:
            o["router"] = ["ok", list(mc.get_router_diagnostics(x, y))]
        except Exception as e:
            o["router"] = err(e)
        try:
            o["num_cores"] = ["ok", mc.get_num_working_cores(x, y)]
            o["working_links"] = ["ok", sorted(int(l) for l in mc.get_working_links(x, y))]
            ip = mc.get_ip_address(x, y)
            o["ip"] = ["ok", None if ip is None else chars(ip)]
        except Exception as e:
            o["num_cores"] = err(e)
        out["probes"].append(o)
    out["datagrams"] = net.nsent
    return out


if __name__ == "__main__":
    import implutil
    implutil.run_cases(run_case, per_case_s=300)
