(* C10 -- the route word: sets of routes within 0..23 <-> 24-bit words (bit lemmas, no enumeration) *)
From Coq Require Import ZArith List Bool Lia.
Require Import Rig.Model.Base Rig.Generated.GenRouter Rig.Model.Tables Rig.Model.Router.
Import ListNotations.
Open Scope Z_scope.

(* what the generated expressions are *)
Lemma route_step_eq : forall w r, lrte_route_step w r = Z.lor w (Z.shiftl 1 r).
Proof. reflexivity. Qed.

Lemma route_init_eq : lrte_route_init = 0.
Proof. reflexivity. Qed.

Lemma has_route_eq : forall w r, urte_has_route w r = negb (Z.land (Z.shiftr w r) 1 =? 0).
Proof. reflexivity. Qed.

Lemma testbit_one_shl : forall r i, 0 <= r -> 0 <= i -> Z.testbit (Z.shiftl 1 r) i = (i =? r).
Proof.
  intros r i Hr Hi.
  rewrite Z.shiftl_spec by exact Hi.
  destruct (Z.eqb_spec i r) as [->|Hne].
  - rewrite Z.sub_diag. reflexivity.
  - destruct (Z_lt_le_dec i r) as [Hlt|Hge].
    + apply Z.testbit_neg_r. lia.
    + apply Z.bits_above_log2; [lia|]. change (Z.log2 1) with 0. lia.
Qed.

Lemma fold_step_testbit : forall rs w i,
  (forall r, In r rs -> 0 <= r) -> 0 <= i ->
  Z.testbit (fold_left lrte_route_step rs w) i = Z.testbit w i || existsb (Z.eqb i) rs.
Proof.
  induction rs as [|r rs IH]; intros w i Hrs Hi; simpl.
  - rewrite orb_false_r. reflexivity.
  - rewrite IH by (auto with datatypes).
    rewrite route_step_eq, Z.lor_spec, testbit_one_shl by (auto with datatypes).
    rewrite orb_assoc. reflexivity.
Qed.

(* bit i of the word is set iff route i is in the set *)
Lemma route_word_testbit : forall rs i,
  (forall r, In r rs -> 0 <= r) -> 0 <= i ->
  Z.testbit (route_word rs) i = existsb (Z.eqb i) rs.
Proof.
  intros rs i Hrs Hi. unfold route_word.
  rewrite fold_step_testbit by assumption.
  rewrite route_init_eq, Z.testbit_0_l. reflexivity.
Qed.

Lemma fold_step_nonneg : forall rs w, 0 <= w -> 0 <= fold_left lrte_route_step rs w.
Proof.
  induction rs as [|r rs IH]; intros w Hw; simpl; [exact Hw|].
  apply IH. rewrite route_step_eq. apply Z.lor_nonneg. split; [exact Hw|].
  apply Z.shiftl_nonneg. lia.
Qed.

Lemma route_word_nonneg : forall rs, 0 <= route_word rs.
Proof. intros. apply fold_step_nonneg. rewrite route_init_eq. lia. Qed.

Lemma existsb_eqb_In : forall i rs, existsb (Z.eqb i) rs = true <-> In i rs.
Proof.
  intros i rs. rewrite existsb_exists. split.
  - intros [x [Hin Heq]]. apply Z.eqb_eq in Heq. subst. exact Hin.
  - intros Hin. exists i. split; [exact Hin|apply Z.eqb_refl].
Qed.

(* a set within 0..n-1 gives a word below 2^n *)
Lemma route_word_bound : forall rs n,
  0 <= n -> (forall r, In r rs -> 0 <= r < n) -> 0 <= route_word rs < 2 ^ n.
Proof.
  intros rs n Hn Hrs. split; [apply route_word_nonneg|].
  destruct (Z.eq_dec (route_word rs) 0) as [E|E].
  - rewrite E. apply Z.pow_pos_nonneg; lia.
  - apply Z.log2_lt_pow2; [pose proof (route_word_nonneg rs); lia|].
    destruct (Z_lt_le_dec (Z.log2 (route_word rs)) n) as [Hlt|Hge]; [exact Hlt|exfalso].
    assert (Hpos : 0 < route_word rs) by (pose proof (route_word_nonneg rs); lia).
    pose proof (Z.bit_log2 _ Hpos) as Hbit.
    rewrite route_word_testbit in Hbit.
    + apply existsb_eqb_In in Hbit. apply Hrs in Hbit. lia.
    + intros r Hr. apply Hrs in Hr. lia.
    + apply Z.log2_nonneg.
Qed.

Lemma has_route_testbit : forall w r, 0 <= r -> urte_has_route w r = Z.testbit w r.
Proof.
  intros w r Hr. rewrite has_route_eq.
  change 1 with (Z.ones 1). rewrite Z.land_ones by lia. change (2 ^ 1) with 2.
  rewrite Z.testbit_odd, Zmod_odd.
  destruct (Z.odd (Z.shiftr w r)); reflexivity.
Qed.

(* the read-back decode of a word: the members of Routes whose bit is set *)
Definition decode_word (w : Z) : list Z := filter (urte_has_route w) Routes_values.

Lemma Routes_values_range : forall r, In r Routes_values <-> 0 <= r < 24.
Proof.
  intros r. split.
  - intros H. unfold Routes_values in H. simpl in H.
    repeat (destruct H as [H|H]; [subst; lia|]). contradiction.
  - intros H.
    assert (E : r = 0 \/ r = 1 \/ r = 2 \/ r = 3 \/ r = 4 \/ r = 5 \/ r = 6 \/ r = 7 \/ r = 8 \/ r = 9 \/
                r = 10 \/ r = 11 \/ r = 12 \/ r = 13 \/ r = 14 \/ r = 15 \/ r = 16 \/ r = 17 \/ r = 18 \/
                r = 19 \/ r = 20 \/ r = 21 \/ r = 22 \/ r = 23) by lia.
    unfold Routes_values. simpl.
    repeat (destruct E as [E|E]; [subst; tauto|]). subst; tauto.
Qed.

Lemma decode_word_In : forall w r, In r (decode_word w) <-> 0 <= r < 24 /\ Z.testbit w r = true.
Proof.
  intros w r. unfold decode_word. rewrite filter_In, Routes_values_range.
  split; intros [Hr Hb]; split; try exact Hr.
  - rewrite <- has_route_testbit by lia. exact Hb.
  - rewrite has_route_testbit by lia. exact Hb.
Qed.

(* set -> word -> set *)
Lemma decode_route_word : forall rs,
  (forall r, In r rs -> 0 <= r < 24) ->
  forall r, In r (decode_word (route_word rs)) <-> In r rs.
Proof.
  intros rs Hrs r. rewrite decode_word_In. split.
  - intros [Hr Hb]. rewrite route_word_testbit in Hb; [|intros q Hq; apply Hrs in Hq; lia|lia].
    apply existsb_eqb_In. exact Hb.
  - intros Hin. split; [apply Hrs; exact Hin|].
    rewrite route_word_testbit; [|intros q Hq; apply Hrs in Hq; lia|apply Hrs in Hin; lia].
    apply existsb_eqb_In. exact Hin.
Qed.

(* word -> set -> word *)
Lemma route_word_decode : forall w, 0 <= w < 2 ^ 24 -> route_word (decode_word w) = w.
Proof.
  intros w Hw. apply Z.bits_inj'. intros i Hi.
  rewrite route_word_testbit; [|intros r Hr; apply decode_word_In in Hr; lia|exact Hi].
  destruct (Z.testbit w i) eqn:Hb.
  - apply existsb_eqb_In. apply decode_word_In. split; [|exact Hb].
    split; [exact Hi|].
    destruct (Z_lt_le_dec i 24) as [Hlt|Hge]; [exact Hlt|exfalso].
    rewrite Z.bits_above_log2 in Hb; [discriminate|lia|].
    destruct (Z.eq_dec w 0) as [->|Hne]; [simpl; lia|].
    assert (Z.log2 w < 24) by (apply Z.log2_lt_pow2; lia). lia.
  - destruct (existsb (Z.eqb i) (decode_word w)) eqn:He; [|reflexivity].
    apply existsb_eqb_In in He. apply decode_word_In in He. destruct He as [_ He]. congruence.
Qed.

(* the decoded set is strictly increasing: it is the canonical representation of the set *)
Lemma decode_word_sorted : forall w, exists l, decode_word w = l /\ NoDup l.
Proof.
  intros w. exists (decode_word w). split; [reflexivity|].
  unfold decode_word. apply NoDup_filter.
  unfold Routes_values.
  repeat (constructor; [simpl; intuition lia|]). constructor.
Qed.

(* the "unused" flag never fires on a word below 2^24 *)
Lemma unused_small : forall w, 0 <= w < 2 ^ 24 -> urte_unused w = false.
Proof.
  intros w Hw. unfold urte_unused.
  apply Z.eqb_neq. intros E.
  assert (Hb : Z.testbit (Z.land w 4278190080) 24 = true) by (rewrite E; reflexivity).
  rewrite Z.land_spec in Hb. apply andb_prop in Hb. destruct Hb as [Hb _].
  rewrite Z.bits_above_log2 in Hb; [discriminate|lia|].
  destruct (Z.eq_dec w 0) as [->|Hne]; [simpl; lia|].
  assert (Z.log2 w < 24) by (apply Z.log2_lt_pow2; lia). lia.
Qed.
