(* Executable model of the probing functions of rig (property C14):
     MachineController.get_chip_info / get_p2p_routing_table / get_system_info / get_software_version /
     get_processor_status / get_iobuf_bytes / get_router_diagnostics, SystemInfo's derived views,
     place_and_route.utils.build_machine / build_core_constraints / _get_minimal_core_reservations,
     Machine.__contains__ / __getitem__, routing_table.utils.build_routing_table_target_lengths.
   Definitions only; the proofs are in Proofs/Probe*.v.

   The bit-field expressions, strides, slice bounds, struct format strings, enum members and the live
   sark.struct field tables are NOT written here: they are regenerated from /repo on every run
   (Generated/GenProbe.v).  Bytes are integers 0..255, byte strings are lists of them.  A chip's memory is
   seen through a [reader] (address, length -> bytes): the splitting of a read into SCP packets is the
   business of property C07.  A chip that raises SCPError when asked for its `info` is [None]. *)
From Coq Require Import ZArith String Ascii DecimalString List Bool.
Require Import Rig.Model.Base Rig.Generated.GenProbe.
Import ListNotations.
Open Scope Z_scope.

(* ------------------------------------------------------------------------------------------------ *)
(* bytes, slices, little-endian integers                                                             *)

Definition zrange (n : Z) : list Z := map Z.of_nat (seq 0 (Z.to_nat n)).

(* data[a:b] for 0 <= a, 0 <= b (Python clips at the end of the sequence) *)
Definition slice {A} (a b : Z) (l : list A) : list A :=
  firstn (Z.to_nat (b - a)) (skipn (Z.to_nat a) l).

Fixpoint le_decode (bs : list Z) : Z :=
  match bs with
  | [] => 0
  | b :: r => b + 256 * le_decode r
  end.

Fixpoint le_encode (n : nat) (v : Z) : list Z :=
  match n with
  | O => []
  | S k => (v mod 256) :: le_encode k (v / 256)
  end.

Definition enumerate {A} (l : list A) : list (Z * A) := combine (zrange (Z.of_nat (length l))) l.

Fixpoint list_eqb {A} (eqb : A -> A -> bool) (a b : list A) : bool :=
  match a, b with
  | [], [] => true
  | x :: a', y :: b' => eqb x y && list_eqb eqb a' b'
  | _, _ => false
  end.

Definition zmem (x : Z) (l : list Z) : bool := existsb (Z.eqb x) l.

(* ------------------------------------------------------------------------------------------------ *)
(* the subset of Python's struct format language that the probing code uses                          *)

Inductive fitem := FInt (n : nat) | FBytes (n : nat) | FPad (n : nat).
Inductive uval := UInt (v : Z) | UBytes (b : list Z).

Definition digit_of (c : ascii) : option nat :=
  let n := nat_of_ascii c in
  if ((48 <=? n) && (n <=? 57))%nat then Some (n - 48)%nat else None.

Fixpoint parse_items (cs : list ascii) (cnt : option nat) : option (list fitem) :=
  match cs with
  | [] => match cnt with None => Some [] | Some _ => None end
  | c :: r =>
    match digit_of c with
    | Some d => parse_items r (Some (10 * (match cnt with None => 0 | Some k => k end) + d)%nat)
    | None =>
      let n := match cnt with None => 1%nat | Some k => k end in
      let rest := parse_items r None in
      let rep (it : fitem) := option_map (fun l => repeat it n ++ l) rest in
      if Ascii.eqb c "B" then rep (FInt 1)
      else if Ascii.eqb c "H" then rep (FInt 2)
      else if Ascii.eqb c "I" then rep (FInt 4)
      else if Ascii.eqb c "s" then option_map (cons (FBytes n)) rest
      else if Ascii.eqb c "x" then option_map (cons (FPad n)) rest
      else None
    end
  end.

(* "<..." is little-endian without padding.  The vcpu fields are unpacked with their bare pack character
   (native mode): one item, so no alignment padding; the host is little-endian (trusted base). *)
Definition parse_format (s : string) : option (list fitem) :=
  match list_ascii_of_string s with
  | c :: r => if Ascii.eqb c "<" then parse_items r None else parse_items (c :: r) None
  | [] => Some []
  end.

Definition item_size (it : fitem) : nat :=
  match it with FInt n => n | FBytes n => n | FPad n => n end.
Definition items_size (its : list fitem) : nat := fold_right (fun it a => (item_size it + a)%nat) 0%nat its.

Fixpoint unpack_items (its : list fitem) (bs : list Z) : list uval :=
  match its with
  | [] => []
  | FInt n :: r => UInt (le_decode (firstn n bs)) :: unpack_items r (skipn n bs)
  | FBytes n :: r => UBytes (firstn n bs) :: unpack_items r (skipn n bs)
  | FPad n :: r => unpack_items r (skipn n bs)
  end.

(* struct.unpack_from(fmt, data): needs at least calcsize bytes; struct.unpack: exactly (struct.error) *)
Definition unpack_from (fmt : string) (bs : list Z) : option (list uval) :=
  match parse_format fmt with
  | None => None
  | Some its => if (length bs <? items_size its)%nat then None else Some (unpack_items its bs)
  end.

Definition unpack (fmt : string) (bs : list Z) : option (list uval) :=
  match parse_format fmt with
  | None => None
  | Some its => if (length bs =? items_size its)%nat then Some (unpack_items its bs) else None
  end.

Definition calcsize (fmt : string) : option Z :=
  option_map (fun its => Z.of_nat (items_size its)) (parse_format fmt).

Fixpoint ints_of (vs : list uval) : option (list Z) :=
  match vs with
  | [] => Some []
  | UInt v :: r => option_map (cons v) (ints_of r)
  | UBytes _ :: _ => None
  end.

Definition unpack_ints (fmt : string) (bs : list Z) : option (list Z) :=
  match unpack fmt bs with Some vs => ints_of vs | None => None end.
Definition unpack_from_ints (fmt : string) (bs : list Z) : option (list Z) :=
  match unpack_from fmt bs with Some vs => ints_of vs | None => None end.

(* ------------------------------------------------------------------------------------------------ *)
(* memory                                                                                             *)

Definition reader := Z -> Z -> list Z.          (* address, length in bytes -> the bytes *)

(* concrete memories for the correspondence run: (base, bytes) regions, first match wins, else 0 *)
Fixpoint mem_byte (m : list (Z * Z * list Z)) (a : Z) : Z :=
  match m with
  | [] => 0
  | (base, len, data) :: r =>
    if (base <=? a) && (a <? base + len) then nth (Z.to_nat (a - base)) data 0
    else mem_byte r a
  end.
(* the regions are measured once per read, not once per byte *)
Definition mem_reader (m : list (Z * list Z)) : reader :=
  fun a n =>
    let m' := map (fun bd => (fst bd, Z.of_nat (length (snd bd)), snd bd)) m in
    map (fun i => mem_byte m' (a + i)) (zrange n).

(* MachineController.read_struct_field for a field holding one integer:
   pack_chars = "<" + length * pack_chars; unpacked[0] when length == 1 (a tuple otherwise, on which the
   arithmetic of every caller here raises TypeError). *)
Definition read_int_field (rd : reader) (base : Z) (f : string * Z * Z) : result Z :=
  let '(pack, off, len) := f in
  let fmt := ("<" ++ String.concat "" (repeat pack (Z.to_nat len)))%string in
  match calcsize fmt with
  | None => OtherError
  | Some n =>
    match unpack fmt (rd (base + off) n) with
    | Some [UInt v] => if len =? 1 then Ok v else OtherError
    | _ => OtherError
    end
  end.

Definition read_sv_int (rd : reader) (f : string * Z * Z) : result Z := read_int_field rd sv_base f.

(* ------------------------------------------------------------------------------------------------ *)
(* get_chip_info                                                                                      *)

Record reply := mkReply { r_arg1 : Z; r_arg2 : Z; r_arg3 : Z; r_data : list Z }.

Record chip_info := mkCI {
  ci_cores : Z;                  (* num_cores *)
  ci_states : list Z;            (* core_states, AppState values *)
  ci_links : list Z;             (* working_links (a set; here in the order of Links) *)
  ci_free_sdram : Z;
  ci_free_sram : Z;
  ci_free_rtr : Z;
  ci_eth_up : bool;
  ci_ip : string;
  ci_eth_chip : Z * Z }.

Definition dec_string (v : Z) : string := NilZero.string_of_uint (N.to_uint (Z.to_N v)).

Definition decode_info (r : reply) : result chip_info :=
  let a1 := r_arg1 r in let a2 := r_arg2 r in let a3 := r_arg3 r in
  let num_cores := ci_num_cores a1 a2 a3 in
  let working := filter (ci_link_working a1 a2 a3) links_values in
  let rtr := ci_rtr_block a1 a2 a3 in
  let eth := ci_ethernet_up a1 a2 a3 in
  match unpack_from_ints ci_data_format (r_data r) with
  | None => OtherError                                            (* struct.error *)
  | Some data =>
    let states := slice 0 ci_states_stop data in
    if forallb (fun s => zmem s appstate_values) states then
      let d18 := nth 18 data 0 in
      let d19 := nth 19 data 0 in
      Ok (mkCI num_cores (slice 0 num_cores states) working (ci_sdram a1 a2 a3) (ci_sram a1 a2 a3) rtr eth
               (String.concat ci_ip_separator (map (fun i => dec_string (ci_ip_byte d18 d19 i)) ci_ip_shifts))
               (ci_local_ethernet_chip d18 d19))
    else OtherError                                               (* ValueError: not an AppState *)
  end.

(* ------------------------------------------------------------------------------------------------ *)
(* get_p2p_routing_table                                                                              *)

Fixpoint p2p_column (fuel : nat) (col row height : Z) (raw : list Z) : result (list (chip * Z)) :=
  if row <? height then
    match fuel with
    | O => OutOfFuel
    | S f =>
      match unpack_ints p2p_word_format (slice 0 p2p_word_bytes raw) with
      | Some [word] =>
        let n := p2p_entries_in_word height row in
        let es := map (fun e => ((col, row + e), p2p_entry word e)) (zrange n) in
        if forallb (fun ce => zmem (snd ce) p2p_entry_values) es then
          bind (p2p_column f col (row + n) height (skipn (Z.to_nat p2p_word_bytes) raw))
               (fun rest => Ok (es ++ rest))
        else OtherError                                           (* ValueError: not a P2PTableEntry *)
      | _ => OtherError                                           (* struct.error: fewer than 4 bytes *)
      end
    end
  else Ok [].

Fixpoint p2p_columns (rd : reader) (height col_words : Z) (cols : list Z) : result (list (chip * Z)) :=
  match cols with
  | [] => Ok []
  | col :: r =>
    let raw := rd (p2p_col_address SPINNAKER_RTR_P2P col) col_words in
    bind (p2p_column (S (Z.to_nat height)) col 0 height raw) (fun es =>
    bind (p2p_columns rd height col_words r) (fun rest => Ok (es ++ rest)))
  end.

(* the dict {(x, y): entry} in insertion order (keys are distinct: columns differ, rows increase) *)
Definition p2p_table (rd : reader) : result (list (chip * Z)) :=
  bind (read_sv_int rd sv_p2p_dims) (fun dims =>
  let width := p2p_width dims in
  let height := p2p_height dims in
  p2p_columns rd height (p2p_col_words height) (zrange width)).

(* ------------------------------------------------------------------------------------------------ *)
(* get_system_info and the views of SystemInfo                                                        *)

Record sysinfo := mkSI { si_width : Z; si_height : Z; si_chips : list (chip * chip_info) }.

Definition routed (tbl : list (chip * Z)) : list (chip * Z) :=
  filter (fun ce => negb (snd ce =? P2PTableEntry_none)) tbl.

Definition zmax_list (l : list Z) : option Z :=
  match l with
  | [] => None
  | a :: r => Some (fold_left Z.max r a)
  end.

Fixpoint probe_chips (info : chip -> option reply) (l : list (chip * Z)) : result (list (chip * chip_info)) :=
  match l with
  | [] => Ok []
  | (c, e) :: rest =>
    if e =? P2PTableEntry_none then probe_chips info rest
    else match info c with
         | None => probe_chips info rest                         (* SCPError: assumed dead, skipped *)
         | Some rep =>
           bind (decode_info rep) (fun ci =>
           bind (probe_chips info rest) (fun l' => Ok ((c, ci) :: l')))
         end
  end.

Definition system_info_of_table (info : chip -> option reply) (tbl : list (chip * Z)) : result sysinfo :=
  match zmax_list (map (fun ce => fst (fst ce)) (routed tbl)),
        zmax_list (map (fun ce => snd (fst ce)) (routed tbl)) with
  | Some mx, Some my =>
    bind (probe_chips info tbl) (fun chips => Ok (mkSI (mx + 1) (my + 1) chips))
  | _, _ => OtherError                                            (* max() of an empty sequence *)
  end.

Definition system_info (rd : reader) (info : chip -> option reply) : result sysinfo :=
  bind (p2p_table rd) (system_info_of_table info).

Definition si_get (si : sysinfo) (c : chip) : option chip_info := cassoc c (si_chips si).
Definition si_has (si : sysinfo) (c : chip) : bool :=
  match si_get si c with Some _ => true | None => false end.

Definition si_dead_chips (si : sysinfo) : list chip :=
  flat_map (fun x => flat_map (fun y => if si_has si (x, y) then [] else [(x, y)])
                              (zrange (si_height si))) (zrange (si_width si)).

Definition si_links (si : sysinfo) : list (chip * Z) :=
  flat_map (fun cc => map (fun l => (fst cc, l)) (ci_links (snd cc))) (si_chips si).

Definition si_dead_links (si : sysinfo) : list (chip * Z) :=
  flat_map (fun cc => flat_map (fun l => if zmem l (ci_links (snd cc)) then [] else [(fst cc, l)])
                               links_values) (si_chips si).

Definition si_cores (si : sysinfo) : list (chip * Z * Z) :=
  flat_map (fun cc => map (fun ps => (fst cc, fst ps, snd ps)) (enumerate (ci_states (snd cc)))) (si_chips si).

Definition si_ethernet (si : sysinfo) : list (chip * string) :=
  flat_map (fun cc => if ci_eth_up (snd cc) then [(fst cc, ci_ip (snd cc))] else []) (si_chips si).

(* SystemInfo.__contains__ : (x, y) / (x, y, p) / (x, y, link) / (x, y, p, state) *)
Definition si_has_core (si : sysinfo) (c : chip) (p : Z) : bool :=
  match si_get si c with Some ci => (0 <=? p) && (p <? ci_cores ci) | None => false end.
Definition si_has_link (si : sysinfo) (c : chip) (l : Z) : bool :=
  match si_get si c with Some ci => zmem l (ci_links ci) | None => false end.
(* core_states[p] raises IndexError when num_cores exceeds the number of states *)
Definition si_has_core_state (si : sysinfo) (c : chip) (p s : Z) : result bool :=
  match si_get si c with
  | Some ci =>
    if (0 <=? p) && (p <? ci_cores ci) then
      match nth_error (ci_states ci) (Z.to_nat p) with
      | Some s' => Ok (s' =? s)
      | None => OtherError
      end
    else Ok false
  | None => Ok false
  end.

(* ------------------------------------------------------------------------------------------------ *)
(* place_and_route.utils.build_machine and the Machine it returns                                     *)

Definition res3 := (Z * Z * Z)%type.          (* Cores, SDRAM, SRAM *)

Record pmachine := mkPM {
  pm_width : Z; pm_height : Z;
  pm_res : res3;                               (* chip_resources *)
  pm_exc : list (chip * res3);                 (* chip_resource_exceptions, in dict order *)
  pm_dead_chips : list chip;                   (* a set *)
  pm_dead_links : list (chip * Z) }.           (* a set *)

Definition max_or_zero (l : list Z) : Z :=
  match zmax_list l with Some m => m | None => 0 end.

Definition ci_res (ci : chip_info) : res3 := (ci_cores ci, ci_free_sdram ci, ci_free_sram ci).

Definition res3_eqb (a b : res3) : bool :=
  let '(a1, a2, a3) := a in let '(b1, b2, b3) := b in (a1 =? b1) && (a2 =? b2) && (a3 =? b3).

Definition build_machine (si : sysinfo) : pmachine :=
  let infos := map snd (si_chips si) in
  let mc := max_or_zero (map ci_cores infos) in
  let msd := max_or_zero (map ci_free_sdram infos) in
  let msr := max_or_zero (map ci_free_sram infos) in
  mkPM (si_width si) (si_height si) (mc, msd, msr)
       (flat_map (fun cc => if res3_eqb (ci_res (snd cc)) (mc, msd, msr) then []
                            else [(fst cc, ci_res (snd cc))]) (si_chips si))
       (si_dead_chips si) (si_dead_links si).

Definition link_mem (cl : chip * Z) (l : list (chip * Z)) : bool :=
  existsb (fun d => chip_eqb (fst cl) (fst d) && (snd cl =? snd d)) l.

(* Machine.__contains__ for (x, y) and (x, y, link); Machine.__getitem__ (IndexError otherwise) *)
Definition pm_has_chip (m : pmachine) (c : chip) : bool :=
  (0 <=? fst c) && (fst c <? pm_width m) && (0 <=? snd c) && (snd c <? pm_height m)
  && negb (chip_mem c (pm_dead_chips m)).
Definition pm_has_link (m : pmachine) (c : chip) (l : Z) : bool :=
  pm_has_chip m c && negb (link_mem (c, l) (pm_dead_links m)).
Definition pm_get (m : pmachine) (c : chip) : result res3 :=
  if pm_has_chip m c then
    Ok (match cassoc c (pm_exc m) with Some r => r | None => pm_res m end)
  else OtherError.
Definition pm_iter (m : pmachine) : list chip :=
  flat_map (fun x => flat_map (fun y => if pm_has_chip m (x, y) then [(x, y)] else [])
                              (zrange (pm_height m))) (zrange (pm_width m)).

(* routing_table.utils.build_routing_table_target_lengths *)
Definition target_lengths (si : sysinfo) : list (chip * Z) :=
  map (fun cc => (fst cc, ci_free_rtr (snd cc))) (si_chips si).

(* ------------------------------------------------------------------------------------------------ *)
(* build_core_constraints / _get_minimal_core_reservations                                            *)

Definition range := (Z * Z)%type.              (* slice(start, stop) *)

Fixpoint min_reservations_go (cur : option range) (cores : list Z) : list range :=
  match cores with
  | [] => match cur with None => [] | Some r => [r] end
  | c :: rest =>
    match cur with
    | None => min_reservations_go (Some (c, c + 1)) rest
    | Some (s, e) =>
      if e =? c then min_reservations_go (Some (s, c + 1)) rest
      else (s, e) :: min_reservations_go (Some (c, c + 1)) rest
    end
  end.
Definition min_reservations (cores : list Z) : list range := min_reservations_go None cores.

(* sum(1 << c for c, state in enumerate(core_states) if state != AppState.idle) *)
Definition reserved_mask (states : list Z) : Z :=
  fold_right Z.add 0 (map (fun cs => if snd cs =? AppState_idle then 0 else Z.shiftl 1 (fst cs))
                          (enumerate states)).

Definition globally_reserved (infos : list chip_info) : Z :=
  match infos with
  | [] => 0
  | ci :: r => fold_left (fun g ci' => Z.land g (reserved_mask (ci_states ci'))) r
                         (reserved_mask (ci_states ci))
  end.

Definition busy_not_global (g : Z) (states : list Z) : list Z :=
  map fst (filter (fun cs => negb (snd cs =? AppState_idle) && (Z.land g (Z.shiftl 1 (fst cs)) =? 0))
                  (enumerate states)).

(* the list of ReserveResourceConstraint(Cores, slice(start, stop), location) *)
Definition build_core_constraints (si : sysinfo) : list (range * option chip) :=
  let g := globally_reserved (map snd (si_chips si)) in
  map (fun r => (r, None))
      (min_reservations (filter (fun core => negb (Z.land (Z.shiftl 1 core) g =? 0)) (zrange bcc_core_range)))
  ++ flat_map (fun cc => map (fun r => (r, Some (fst cc)))
                             (min_reservations (busy_not_global g (ci_states (snd cc))))) (si_chips si).

(* ------------------------------------------------------------------------------------------------ *)
(* get_iobuf_bytes                                                                                    *)

Fixpoint sassoc {A} (k : string) (l : list (string * A)) : option A :=
  match l with
  | [] => None
  | (k', v) :: r => if String.eqb k k' then Some v else sassoc k r
  end.

(* read_vcpu_struct_field for an integer field of core p *)
Definition read_vcpu_int (rd : reader) (name : string) (p : Z) : result Z :=
  match sassoc name vcpu_fields with
  | None => OtherError                                             (* KeyError *)
  | Some (pack, off, len) =>
    bind (read_sv_int rd sv_vcpu_base) (fun base =>
    let fmt := ("<" ++ pack)%string in
    match calcsize fmt with
    | None => OtherError
    | Some n =>
      match unpack fmt (rd (base + vcpu_size * p + off) n) with
      | Some [UInt v] => if len =? 1 then Ok v else OtherError
      | _ => OtherError
      end
    end)
  end.

(* `while address:` -- the model's fuel stands for the loop; an acyclic chain needs one unit per block *)
Fixpoint iobuf_walk (fuel : nat) (rd : reader) (iobuf_size address : Z) : result (list Z) :=
  if address =? 0 then Ok []
  else match fuel with
       | O => OutOfFuel
       | S f =>
         let data := rd address (iobuf_read_length iobuf_size) in
         match unpack_ints iobuf_header_format (slice 0 iobuf_header_bytes data) with
         | Some [next; _; _; len] =>
           bind (iobuf_walk f rd iobuf_size next) (fun rest =>
           Ok (slice iobuf_text_start (iobuf_text_stop len) data ++ rest))
         | _ => OtherError
         end
       end.

Definition get_iobuf_bytes (fuel : nat) (rd : reader) (p : Z) : result (list Z) :=
  bind (read_sv_int rd sv_iobuf_size) (fun size =>
  bind (read_vcpu_int rd "iobuf" p) (fun address =>
  iobuf_walk fuel rd size address)).

(* ------------------------------------------------------------------------------------------------ *)
(* get_router_diagnostics                                                                             *)

Definition router_diagnostics (rd : reader) : result (list Z) :=
  match unpack_ints router_diag_format (rd router_diag_address router_diag_length) with
  | Some vs => if Z.of_nat (length vs) =? router_diag_fields then Ok vs else OtherError
  | None => OtherError
  end.

(* ------------------------------------------------------------------------------------------------ *)
(* get_processor_status                                                                               *)

Inductive sval := SInt (v : Z) | SBytes (b : list Z) | SList (l : list Z).

Definition sval_flat (v : sval) : list Z :=
  match v with SInt v => [v] | SBytes b => b | SList l => l end.

Fixpoint spop {A} (k : string) (l : list (string * A)) : option (A * list (string * A)) :=
  match l with
  | [] => None
  | (k', v) :: r =>
    if String.eqb k k' then Some (v, r)
    else match spop k r with Some (x, r') => Some (x, (k', v) :: r') | None => None end
  end.

Fixpoint sset {A} (k : string) (v : A) (l : list (string * A)) : list (string * A) :=
  match l with
  | [] => [(k, v)]
  | (k', v') :: r => if String.eqb k k' then (k, v) :: r else (k', v') :: sset k v r
  end.

Definition string_of_Z (v : Z) : string := dec_string v.

(* [state.pop(prefix + str(i)) for i in range(n)] *)
Fixpoint pop_numbered (prefix : string) (is : list Z) (st : list (string * sval))
  : option (list Z * list (string * sval)) :=
  match is with
  | [] => Some ([], st)
  | i :: r =>
    match spop (prefix ++ string_of_Z i)%string st with
    | Some (SInt v, st') =>
      match pop_numbered prefix r st' with
      | Some (vs, st'') => Some (v :: vs, st'')
      | None => None
      end
    | _ => None
    end
  end.

Fixpoint lstrip0 (b : list Z) : list Z :=
  match b with
  | 0 :: r => lstrip0 r
  | _ => b
  end.
Definition rstrip0 (b : list Z) : list Z := rev (lstrip0 (rev b)).
Definition strip0 (b : list Z) : list Z := rstrip0 (lstrip0 b).

Definition is_ascii (b : list Z) : bool := forallb (fun c => (0 <=? c) && (c <? 128)) b.

Fixpoint apply_renames (rs : list (string * string)) (st : list (string * sval)) : option (list (string * sval)) :=
  match rs with
  | [] => Some st
  | (newn, oldn) :: r =>
    match spop oldn st with
    | Some (v, st') => apply_renames r (sset newn v st')
    | None => None
    end
  end.

Definition unpack_field (data : list Z) (f : string * (string * Z * Z)) : option (string * sval) :=
  let '(name, (pack, off, _)) := f in
  match calcsize pack with
  | None => None
  | Some n =>
    match unpack pack (slice off (off + n) data) with
    | Some (UInt v :: _) => Some (name, SInt v)
    | Some (UBytes b :: _) => Some (name, SBytes b)
    | _ => None
    end
  end.

Fixpoint unpack_fields (data : list Z) (fs : list (string * (string * Z * Z))) : option (list (string * sval)) :=
  match fs with
  | [] => Some []
  | f :: r =>
    match unpack_field data f, unpack_fields data r with
    | Some x, Some l => Some (x :: l)        (* the keys of the dict vcpu.fields are distinct *)
    | _, _ => None
    end
  end.

(* ProcessorStatus(state as keyword arguments): the values in the order of the namedtuple's fields, each flattened to a list
   of integers (int -> [v], list/tuple -> its elements, str -> its characters).  App names are taken to be
   ASCII (any other byte: outside the model's domain, reported as OtherError). *)
Definition status_assemble (st0 : list (string * sval)) : result (list (list Z)) :=
    match pop_numbered "r" (zrange status_n_registers) st0 with
    | None => OtherError
    | Some (regs, st1) =>
      let st1 := sset "registers" (SList regs) st1 in
      match pop_numbered "user" (zrange status_n_user_vars) st1 with
      | None => OtherError
      | Some (users, st2) =>
        let st2 := sset "user_vars" (SList users) st2 in
        match sassoc "app_name" st2, sassoc "cpu_state" st2, sassoc "rt_code" st2 with
        | Some (SBytes nm), Some (SInt cs), Some (SInt rt) =>
          if is_ascii (strip0 nm) && zmem cs appstate_values && zmem rt rte_values then
            let st3 := sset "app_name" (SBytes (strip0 nm)) st2 in
            match spop "sw_ver" st3 with
            | Some (SInt sw, st4) =>
              let '(v1, v2, v3) := status_version sw in
              let st5 := sset "version" (SList [v1; v2; v3]) st4 in
              match apply_renames status_renames st5 with
              | None => OtherError
              | Some st6 =>
                match spop "__PAD" st6 with
                | None => OtherError
                | Some (_, st7) =>
                  if (length st7 =? length status_fields)%nat then
                    (fix collect (fs : list string) : result (list (list Z)) :=
                       match fs with
                       | [] => Ok []
                       | f :: r =>
                         match sassoc f st7 with
                         | Some v => bind (collect r) (fun l => Ok (sval_flat v :: l))
                         | None => OtherError
                         end
                       end) status_fields
                  else OtherError
                end
              end
            | _ => OtherError
            end
          else OtherError
        | _, _, _ => OtherError
        end
      end
    end.

Definition processor_status (rd : reader) (p : Z) : result (list (list Z)) :=
  bind (read_sv_int rd sv_vcpu_base) (fun base =>
  let data := rd (base + vcpu_size * p) vcpu_size in
  match unpack_fields data vcpu_fields with
  | None => OtherError
  | Some st0 => status_assemble st0
  end).

(* ------------------------------------------------------------------------------------------------ *)
(* get_software_version / unpack_sver_response_version (ASCII payloads)                               *)

Record core_info := mkCO {
  co_position : Z * Z; co_pcpu : Z; co_vcpu : Z; co_version : Z * Z * Z;
  co_buffer_size : Z; co_build_date : Z; co_name : list Z; co_labels : list Z }.

Definition is_digit (c : Z) : bool := (48 <=? c) && (c <=? 57).

Fixpoint take_digits (s : list Z) : list Z * list Z :=
  match s with
  | c :: r => if is_digit c then let '(d, rest) := take_digits r in (c :: d, rest) else ([], s)
  | [] => ([], [])
  end.

Definition dec_value (ds : list Z) : Z := fold_left (fun a d => 10 * a + (d - 48)) ds 0.

(* str.partition("\0") : text before the first NUL, text after it *)
Fixpoint partition0 (s : list Z) : list Z * list Z :=
  match s with
  | [] => ([], [])
  | c :: r => if c =? 0 then ([], r) else let '(a, b) := partition0 r in (c :: a, b)
  end.

(* the tail of VERSION_NUMBER_REGEX (an optional group: one non-digit, then any characters; then the end)
   on what follows the third number (its first character, if any, is no digit): the non-digit may be a
   newline, `.` does not match a newline and `$` also matches before a final newline *)
Definition match_labels (rest : list Z) : option (list Z) :=
  match rest with
  | [] => Some []
  | c :: t =>
    if zmem 10 t then
      match rev t with
      | 10 :: body => if zmem 10 body then None else Some (c :: rev body)
      | _ => None
      end
    else Some rest
  end.

(* VERSION_NUMBER_REGEX (Generated: version_regex): three dot-separated numbers, then the labels *)
Definition match_version (s : list Z) : option (Z * Z * Z * list Z) :=
  let '(d1, r1) := take_digits s in
  match d1, r1 with
  | _ :: _, 46 :: r1' =>
    let '(d2, r2) := take_digits r1' in
    match d2, r2 with
    | _ :: _, 46 :: r2' =>
      let '(d3, r3) := take_digits r2' in
      match d3 with
      | _ :: _ =>
        match match_labels r3 with
        | Some lab => Some (dec_value d1, dec_value d2, dec_value d3, lab)
        | None => None
        end
      | [] => None
      end
    | _, _ => None
    end
  | _, _ => None
  end.

Definition decode_sver (r : reply) : result core_info :=
  let a1 := r_arg1 r in let a2 := r_arg2 r in let a3 := r_arg3 r in
  let p2p := sver_p2p a1 a2 a3 in
  if is_ascii (r_data r) then
    let field := sver_legacy_field a1 a2 a3 in
    if sver_is_legacy field then
      Ok (mkCO (sver_p2p_address p2p) (sver_pcpu a1 a2 a3) (sver_vcpu a1 a2 a3)
               (sver_legacy_major field, sver_legacy_minor field, sver_legacy_patch field)
               (sver_buffer_size a1 a2 a3) a3 (rstrip0 (r_data r)) [])
    else
      let '(name, vn) := partition0 (r_data r) in
      match match_version (rstrip0 vn) with
      | Some (major, minor, patch, labels) =>
        Ok (mkCO (sver_p2p_address p2p) (sver_pcpu a1 a2 a3) (sver_vcpu a1 a2 a3) (major, minor, patch)
                 (sver_buffer_size a1 a2 a3) a3 (rstrip0 name) labels)
      | None => OtherError                                       (* AssertionError: malformed version *)
      end
  else OtherError.                                               (* outside the model: non-ASCII payload *)

(* MachineController.get_system_info as a fresh controller runs it: the first memory read asks for
   scp_data_length, i.e. issues sver to (255, 255, 0) and parses the answer *)
Definition controller_system_info (sv : reply) (rd : reader) (info : chip -> option reply) : result sysinfo :=
  bind (decode_sver sv) (fun _ => system_info rd info).

(* ------------------------------------------------------------------------------------------------ *)
(* the struct layout as a parameter                                                                   *)
(* MachineController(structs=...): every probing function resolves the fields it reads through the
   controller's own `structs` (_get_struct_field_and_address: address = struct.base + field.offset, format
   "<" + length * pack_chars).  [layout] holds what the probing functions look up there; the functions
   above are the instances for the packaged boot/sark.struct (lemmas *_packaged, by computation). *)

Record layout := mkLayout {
  l_sv_base : Z;
  l_p2p_dims : string * Z * Z;          (* pack_chars, offset, length of sv.p2p_dims *)
  l_vcpu_base : string * Z * Z;
  l_iobuf_size : string * Z * Z;
  l_num_cpus : string * Z * Z;
  l_vcpu_size : Z;
  l_vcpu_fields : list (string * (string * Z * Z)) }.

Definition packaged_layout : layout :=
  mkLayout sv_base sv_p2p_dims sv_vcpu_base sv_iobuf_size sv_num_cpus vcpu_size vcpu_fields.

Definition read_sv_int_L (L : layout) (rd : reader) (f : string * Z * Z) : result Z :=
  read_int_field rd (l_sv_base L) f.

Definition p2p_table_L (L : layout) (rd : reader) : result (list (chip * Z)) :=
  bind (read_sv_int_L L rd (l_p2p_dims L)) (fun dims =>
  let width := p2p_width dims in
  let height := p2p_height dims in
  p2p_columns rd height (p2p_col_words height) (zrange width)).

Definition system_info_L (L : layout) (rd : reader) (info : chip -> option reply) : result sysinfo :=
  bind (p2p_table_L L rd) (system_info_of_table info).

Definition num_working_cores_L (L : layout) (rd : reader) : result Z := read_sv_int_L L rd (l_num_cpus L).

Definition read_vcpu_int_L (L : layout) (rd : reader) (name : string) (p : Z) : result Z :=
  match sassoc name (l_vcpu_fields L) with
  | None => OtherError                                             (* KeyError *)
  | Some (pack, off, len) =>
    bind (read_sv_int_L L rd (l_vcpu_base L)) (fun base =>
    let fmt := ("<" ++ pack)%string in
    match calcsize fmt with
    | None => OtherError
    | Some n =>
      match unpack fmt (rd (base + l_vcpu_size L * p + off) n) with
      | Some [UInt v] => if len =? 1 then Ok v else OtherError
      | _ => OtherError
      end
    end)
  end.

Definition get_iobuf_bytes_L (L : layout) (fuel : nat) (rd : reader) (p : Z) : result (list Z) :=
  bind (read_sv_int_L L rd (l_iobuf_size L)) (fun size =>
  bind (read_vcpu_int_L L rd "iobuf" p) (fun address =>
  iobuf_walk fuel rd size address)).

Definition processor_status_L (L : layout) (rd : reader) (p : Z) : result (list (list Z)) :=
  bind (read_sv_int_L L rd (l_vcpu_base L)) (fun base =>
  let data := rd (base + l_vcpu_size L * p) (l_vcpu_size L) in
  match unpack_fields data (l_vcpu_fields L) with
  | None => OtherError
  | Some st0 => status_assemble st0
  end).

(* ------------------------------------------------------------------------------------------------ *)
(* the controller as an object with a history                                                         *)
(* What a MachineController remembers between probing calls: the SCP buffer size learnt from the first
   sver ([None] until then).  Every memory read first makes sure it is known. *)

Definition ctl_state := option Z.

Definition ctl_ensure_length (st : ctl_state) (sv : reply) : result ctl_state :=
  match st with
  | Some n => Ok (Some n)
  | None => bind (decode_sver sv) (fun ci => Ok (Some (co_buffer_size ci)))
  end.

(* one call of get_system_info on a controller in state [st], talking to a machine whose boot chip answers
   sver with [sv]: the description and the controller's state afterwards *)
Definition ctl_system_info (L : layout) (st : ctl_state) (sv : reply) (rd : reader) (info : chip -> option reply)
  : result (sysinfo * ctl_state) :=
  bind (ctl_ensure_length st sv) (fun st' =>
  bind (system_info_L L rd info) (fun si => Ok (si, st'))).

Definition ctl_processor_status (L : layout) (st : ctl_state) (sv : reply) (rd : reader) (p : Z)
  : result (list (list Z) * ctl_state) :=
  bind (ctl_ensure_length st sv) (fun st' =>
  bind (processor_status_L L rd p) (fun r => Ok (r, st'))).

Definition ctl_iobuf_bytes (L : layout) (st : ctl_state) (sv : reply) (fuel : nat) (rd : reader) (p : Z)
  : result (list Z * ctl_state) :=
  bind (ctl_ensure_length st sv) (fun st' =>
  bind (get_iobuf_bytes_L L fuel rd p) (fun r => Ok (r, st'))).

(* other entry points *)
(* MachineController.get_machine (deprecated): build_machine(self.get_system_info(x, y)) *)
Definition get_machine_L (L : layout) (rd : reader) (info : chip -> option reply) : result pmachine :=
  bind (system_info_L L rd info) (fun si => Ok (build_machine si)).

(* get_working_links / get_ip_address: views of get_chip_info *)
Definition working_links (r : reply) : result (list Z) := bind (decode_info r) (fun ci => Ok (ci_links ci)).
Definition ip_address (r : reply) : result (option string) :=
  bind (decode_info r) (fun ci => Ok (if ci_eth_up ci then Some (ci_ip ci) else None)).

(* ------------------------------------------------------------------------------------------------ *)
(* canonical flat forms, used by the correspondence run to compare with the implementation's output   *)

Definition b2z (b : bool) : Z := if b then 1 else 0.
Definition chars (s : string) : list Z := map (fun c => Z.of_nat (nat_of_ascii c)) (list_ascii_of_string s).
Definition zlen {A} (l : list A) : Z := Z.of_nat (length l).

Definition flat_ci (ci : chip_info) : list Z :=
  [ci_cores ci; zlen (ci_states ci)] ++ ci_states ci ++ [zlen (ci_links ci)] ++ ci_links ci ++
  [ci_free_sdram ci; ci_free_sram ci; ci_free_rtr ci; b2z (ci_eth_up ci); zlen (chars (ci_ip ci))] ++
  chars (ci_ip ci) ++ [fst (ci_eth_chip ci); snd (ci_eth_chip ci)].

Definition flat_sysinfo (si : sysinfo) : list (list Z) :=
  [si_width si; si_height si] :: map (fun cc => fst (fst cc) :: snd (fst cc) :: flat_ci (snd cc)) (si_chips si).

Definition flat_chips (l : list chip) : list (list Z) := map (fun c => [fst c; snd c]) l.
Definition flat_links (l : list (chip * Z)) : list (list Z) :=
  map (fun cl => [fst (fst cl); snd (fst cl); snd cl]) l.
Definition flat_res (r : res3) : list Z := let '(a, b, c) := r in [a; b; c].

Definition flat_machine (m : pmachine) : list (list (list Z)) :=
  [ [[pm_width m; pm_height m]; flat_res (pm_res m)];
    map (fun ce => fst (fst ce) :: snd (fst ce) :: flat_res (snd ce)) (pm_exc m);
    flat_chips (pm_dead_chips m);
    flat_links (pm_dead_links m) ].

(* answers of the Machine to "(x, y) in m", "m[(x, y)]", "(x, y, link) in m" for given coordinates *)
Definition machine_queries (m : pmachine) (coords : list (list Z)) : list (list Z) :=
  map (fun xy =>
    let c := (nth 0 xy 0, nth 1 xy 0) in
    [fst c; snd c; b2z (pm_has_chip m c)] ++
    match pm_get m c with Ok r => 1 :: flat_res r | _ => [0] end ++
    [fold_right Z.add 0 (map (fun l => if pm_has_link m c l then Z.shiftl 1 l else 0) links_values)])
    coords.

Definition flat_constraints (l : list (range * option chip)) : list (list Z) :=
  map (fun rc => [fst (fst rc); snd (fst rc)] ++
                 match snd rc with None => [0] | Some c => [1; fst c; snd c] end) l.

Definition flat_cores (l : list (chip * Z * Z)) : list (list Z) :=
  map (fun t => [fst (fst (fst t)); snd (fst (fst t)); snd (fst t); snd t]) l.

Definition flat_eth (l : list (chip * string)) : list (list Z) :=
  map (fun t => fst (fst t) :: snd (fst t) :: chars (snd t)) l.

Definition flat_core_info (c : core_info) : list (list Z) :=
  let '(a, b, d) := co_version c in
  [[fst (co_position c); snd (co_position c); co_pcpu c; co_vcpu c; a; b; d; co_buffer_size c;
    co_build_date c]; co_name c; co_labels c].

Definition lz_eqb := list_eqb Z.eqb.
Definition llz_eqb := list_eqb lz_eqb.
Definition lllz_eqb := list_eqb llz_eqb.

(* digests: large outputs are compared through a polynomial hash computed on both sides *)
Definition hash_mask : Z := 2305843009213693951.      (* 2^61 - 1; masking is far cheaper than a division *)
Definition hash_list (l : list Z) : Z := fold_left (fun h v => Z.land (1000003 * h + v + 1) hash_mask) l 7.
Definition hash_ll (ll : list (list Z)) : Z := hash_list (flat_map (fun l => zlen l :: l) ll).
Definition hash_lll (lll : list (list (list Z))) : Z := hash_list (map hash_ll lll).

Definition drop_state {A S} (r : result (A * S)) : result A :=
  match r with Ok (a, _) => Ok a | Failed k => Failed k | OtherError => OtherError | OutOfFuel => OutOfFuel end.

(* result -> option for printing *)
Definition okopt {A} (r : result A) : option A := match r with Ok a => Some a | _ => None end.
Definition status_of {A} (r : result A) : Z :=
  match r with Ok _ => 0 | Failed _ => 1 | OtherError => 2 | OutOfFuel => 3 end.

(* one machine of the correspondence run: what the model derives from the raw memory / replies *)
Definition info_of (l : list (chip * reply)) : chip -> option reply := fun c => cassoc c l.

Definition contains_queries (si : sysinfo) (qs : list (list Z)) : list (list Z) :=
  map (fun q =>
    match q with
    | [x; y; p; l; s] =>
      [b2z (si_has si (x, y)); b2z (si_has_core si (x, y) p); b2z (si_has_link si (x, y) l);
       match si_has_core_state si (x, y) p s with Ok b => b2z b | _ => 2 end]
    | _ => []
    end) qs.
