(* Proofs about the SCP burst model, part 8: the socket is drained; retransmissions are identical; source shape.
   Whatever the outcome, the datagrams read so far followed by those still in the socket are exactly what the
   socket held at the start followed by what the consumed events delivered, in order; when the call ends with
   the timeout error (or goes round the loop once more) nothing is left unread.  Hence a reply that had reached
   the socket by the last select is never overlooked by the retransmission scan. *)
From Coq Require Import ZArith List Bool Lia Arith.
Require Import Rig.Generated.GenSCP Rig.Generated.GenSCPShape Rig.Model.Base Rig.Model.SCP Rig.Model.SCPSource
               Rig.Spec.SCP Rig.Proofs.SCP.
Import ListNotations.
Open Scope Z_scope.

Lemma recvs_app : forall a b, recvs (a ++ b) = recvs a ++ recvs b.
Proof.
  intros a b. induction a as [|o a IH]; [reflexivity|].
  destruct o; cbn [app recvs]; rewrite IH; reflexivity.
Qed.

Lemma fill_buf_recvs : forall cf q qd k out f,
  fill cf q qd k out = Some f -> k_buf (f_conn f) = k_buf k /\ recvs (f_outputs f) = [].
Proof.
  intros cf q. induction q as [|c q IH]; intros qd k out f Hf; cbn [fill] in Hf.
  - destruct ((Z.of_nat (length out) <? cf_window cf) && qd); inversion Hf; subst f; split; reflexivity.
  - destruct ((Z.of_nat (length out) <? cf_window cf) && qd).
    + destruct (free_seq (S (length out)) (k_seq k) out) as [[s s']|]; [|discriminate Hf].
      match type of Hf with
      | match fill cf q true ?k' ?out' with _ => _ end = _ =>
          destruct (fill cf q true k' out') as [r|] eqn:Hr; [|discriminate Hf]
      end.
      inversion Hf; subst f; clear Hf. cbn [f_conn f_outputs recvs].
      destruct (IH _ _ _ _ Hr) as [H1 H2]. cbn [k_buf] in H1. split; assumption.
    + inversion Hf; subst f; split; reflexivity.
Qed.

Lemma callbacks_recvs : forall cbs, recvs (callback_outputs cbs) = [].
Proof. intros cbs. induction cbs as [|cd cbs IH]; [reflexivity|]. cbn [callback_outputs map recvs]. exact IH. Qed.

Lemma recv_loop_recvs : forall buf out cbs,
  recvs (r_outputs (recv_loop buf out cbs)) ++ r_left (recv_loop buf out cbs) = buf
  /\ (r_fatal (recv_loop buf out cbs) = None -> r_left (recv_loop buf out cbs) = []).
Proof.
  intros buf. induction buf as [|d buf IH]; intros out cbs; cbn [recv_loop].
  - split; reflexivity.
  - destruct (d_rc d =? rc_ok).
    + destruct (find_entry (d_seq d) out) as [e|]; cbn [r_outputs r_left r_fatal recvs app];
        [destruct (IH (remove_entry (d_seq d) out) (cbs ++ [(e_cmd e, d)])) as [H1 H2]
        |destruct (IH out cbs) as [H1 H2]]; (split; [f_equal; exact H1|exact H2]).
    + destruct (is_retryable (d_rc d)); cbn [r_outputs r_left r_fatal recvs app].
      * destruct (IH out cbs) as [H1 H2]. split; [f_equal; exact H1|exact H2].
      * split; [reflexivity|intros H; discriminate H].
Qed.

Lemma scan_recvs : forall cf now ntx todo, recvs (s_outputs (scan cf now ntx todo)) = [].
Proof.
  intros cf now ntx todo. revert ntx. induction todo as [|e rest IH]; intros ntx; cbn [scan]; [reflexivity|].
  destruct (e_deadline e <? now); [destruct (cf_tries cf <=? e_tries e)|]; cbn [s_outputs recvs];
    try reflexivity; apply IH.
Qed.

Lemma pre_buf_recvs : forall cf k b p,
  pre cf k b = Some p -> k_buf (p_conn p) = k_buf k /\ recvs (p_outputs p) = [].
Proof.
  intros cf k b p Hp. unfold pre in Hp.
  destruct (fill cf (b_queue b) (b_queued b) k (b_out b)) as [f|] eqn:Hf; [|discriminate Hp].
  inversion Hp; subst p; clear Hp. cbn [p_conn p_outputs k_buf].
  destruct (fill_buf_recvs _ _ _ _ _ _ Hf) as [H1 H2]. split; [exact H1|].
  rewrite !recvs_app, H2, callbacks_recvs. reflexivity.
Qed.

Definition result_conn (r : post_result) : conn :=
  match r with Continue k _ => k | Stop _ k => k end.

Lemma post_recvs : forall cf ev k b os res,
  post cf ev k b = (os, res) ->
  recvs os ++ k_buf (result_conn res) = k_buf k ++ ev_data ev
  /\ (forall oc k', res = Stop oc k' -> (exists c, oc = RaisedTimeout c) -> k_buf k' = []).
Proof.
  intros cf ev k b os res H. unfold post in H.
  destruct (recv_loop_recvs (k_buf k ++ ev_data ev) (b_out b) (b_cbs b)) as [R1 R2].
  destruct (r_fatal (recv_loop (k_buf k ++ ev_data ev) (b_out b) (b_cbs b))) as [[rc c]|] eqn:Hf.
  - inversion H; subst os res; clear H. cbn [result_conn k_buf]. split; [exact R1|].
    intros oc k' E [c0 Hc]. inversion E; subst. unfold fatal_outcome in H0.
    destruct (existsb (Z.eqb rc) all_return_codes && negb (existsb (Z.eqb rc) fatal_codes)); discriminate H0.
  - specialize (R2 eq_refl). rewrite R2, app_nil_r in R1.
    destruct (s_timeout (scan cf (ev_time ev) (k_ntx k) _)) as [c|]; inversion H; subst os res; clear H;
      cbn [result_conn k_buf]; rewrite recvs_app, scan_recvs, !app_nil_r; (split; [exact R1|]).
    + intros oc k' E _. inversion E; subst. reflexivity.
    + intros oc k' E. discriminate E.
Qed.

(* conservation of datagrams, in order, for every outcome *)
Theorem datagrams_read_in_order : forall cf evs k b tr oc k' rest,
  run cf evs k b = (tr, oc, k', rest) ->
  exists consumed, evs = consumed ++ rest /\ recvs tr ++ k_buf k' = delivered k consumed
                   /\ ((exists c, oc = RaisedTimeout c) -> k_buf k' = []).
Proof.
  intros cf evs. induction evs as [|ev evs IH]; intros k b tr oc k' rest Hrun; rewrite run_unfold in Hrun.
  - exists []. unfold delivered. cbn [flat_map]. rewrite app_nil_r.
    destruct (running b); [destruct (pre cf k b) as [p|] eqn:Hp|]; inversion Hrun; subst tr oc k' rest; clear Hrun.
    + destruct (pre_buf_recvs cf k b p Hp) as [H1 H2]. rewrite H1, H2. repeat split. intros [c Hc]. discriminate Hc.
    + repeat split. intros [c Hc]. discriminate Hc.
    + repeat split. intros [c Hc]. discriminate Hc.
  - destruct (running b).
    + destruct (pre cf k b) as [p|] eqn:Hp.
      * destruct (pre_buf_recvs cf k b p Hp) as [H1 H2].
        destruct (post cf ev (p_conn p) (p_state p)) as [os [k1 b1|oc1 k1]] eqn:Hpost;
          destruct (post_recvs cf ev _ _ os _ Hpost) as [P1 P2]; cbn [result_conn] in P1.
        -- destruct (run cf evs k1 b1) as [[[tr2 oc2] k2] rest2] eqn:Hr.
           inversion Hrun; subst tr oc k' rest; clear Hrun.
           destruct (IH k1 b1 tr2 oc2 k2 rest2 Hr) as (cons2 & E & C & T).
           exists (ev :: cons2). split; [rewrite E; reflexivity|]. split; [|exact T].
           unfold delivered in *. cbn [flat_map]. rewrite !recvs_app, H2. cbn [app].
           rewrite <- app_assoc, C, app_assoc, P1, H1, <- app_assoc. reflexivity.
        -- inversion Hrun; subst tr oc k' rest; clear Hrun.
           exists [ev]. split; [reflexivity|]. split.
           ++ unfold delivered. cbn [flat_map]. rewrite app_nil_r, recvs_app, H2. cbn [app]. rewrite P1, H1. reflexivity.
           ++ intros Hc. apply (P2 oc1 k1 eq_refl Hc).
      * inversion Hrun; subst tr oc k' rest; clear Hrun. exists []. unfold delivered. cbn [flat_map].
        rewrite app_nil_r. repeat split. intros [c Hc]. discriminate Hc.
    + inversion Hrun; subst tr oc k' rest; clear Hrun. exists []. unfold delivered. cbn [flat_map].
      rewrite app_nil_r. repeat split. intros [c Hc]. discriminate Hc.
Qed.

(* the timeout error is raised only with the socket drained: every datagram delivered up to the last select
   has been read (and, by timeout_exact, none of those read since the command's first transmission was an OK
   reply bearing its sequence number) *)
Theorem timeout_socket_drained : forall cf cmds evs k tr c k' rest,
  burst cf cmds evs k = (tr, RaisedTimeout c, k', rest) ->
  exists consumed, evs = consumed ++ rest /\ recvs tr = delivered k consumed /\ k_buf k' = [].
Proof.
  intros cf cmds evs k tr c k' rest Hb. unfold burst in Hb.
  destruct (datagrams_read_in_order cf evs k (bstate0 cmds) tr _ k' rest Hb) as (consumed & E & C & T).
  assert (Hbuf : k_buf k' = []) by (apply T; exists c; reflexivity).
  exists consumed. rewrite Hbuf, app_nil_r in C. repeat split; assumption.
Qed.

(* ---------------------------------------------------------------------------------------------- *)
(* a retransmission is the datagram of the first transmission                                       *)
(* ---------------------------------------------------------------------------------------------- *)
(* In the model a transmission is named by the command it carries (the command as submitted: the entry made at
   its first transmission keeps it) and its sequence number; the correspondence harness names a real datagram
   "command c" only if ALL its bytes but the sequence number are c's as submitted.  So: all transmissions of a
   command in a call carry one sequence number -- they are the same datagram. *)

Definition same_seq (tr : list output) : Prop :=
  forall tx c s t tx' s' t', In (OSend tx c s t) tr -> In (OSend tx' c s' t') tr -> s = s'.

Definition seq_kept (m : mstate) : Prop :=
  same_seq (m_tr m) /\
  forall e, In e (b_out (m_b m)) -> forall tx s t, In (OSend tx (e_cmd e) s t) (m_tr m) -> s = e_seq e.

Lemma in_snoc' : forall {A} (l : list A) o x, In x (l ++ [o]) -> In x l \/ x = o.
Proof. intros A l o x H. apply in_app_or in H. destruct H as [H|[H|[]]]; [left; exact H|right; symmetry; exact H]. Qed.

Lemma same_seq_quiet : forall tr o, same_seq tr -> (forall tx c s t, o <> OSend tx c s t) -> same_seq (tr ++ [o]).
Proof.
  intros tr o H Ho tx c s t tx' s' t' H1 H2. apply in_snoc' in H1. apply in_snoc' in H2.
  destruct H1 as [H1|H1]; [|exfalso; apply (Ho _ _ _ _ (eq_sym H1))].
  destruct H2 as [H2|H2]; [|exfalso; apply (Ho _ _ _ _ (eq_sym H2))].
  apply (H _ _ _ _ _ _ _ H1 H2).
Qed.

Lemma astep_seq_kept : forall cf cmds m m',
  NoDup (ids cmds) -> Inv cf cmds m -> seq_kept m -> astep cf m m' -> seq_kept m'.
Proof.
  intros cf cmds m m' Hnd HI [HG HL] Hst. inversion Hst; subst; cbn [m_tr m_b b_out BS] in *.
  - (* first transmission *)
    pose proof (I_unsent _ _ _ HI (c_id c)) as F3. cbn [m_b b_queue m_tr BS ids map] in F3.
    specialize (F3 (or_introl eq_refl)). pose proof (n_sends_zero_notin _ _ F3) as Fno.
    pose proof (D_queue_out cf cmds _ (c_id c) Hnd HI) as F1. cbn [m_b b_queue b_out BS ids map] in F1.
    specialize (F1 (or_introl eq_refl)).
    split.
    + intros tx0 c0 s0 t0 tx1 s1 t1 H1 H2. apply in_snoc' in H1. apply in_snoc' in H2.
      destruct H1 as [H1|H1]; destruct H2 as [H2|H2].
      * apply (HG _ _ _ _ _ _ _ H1 H2).
      * inversion H2; subst. exfalso. apply (Fno _ _ _ H1).
      * inversion H1; subst. exfalso. apply (Fno _ _ _ H2).
      * inversion H1; inversion H2; subst. reflexivity.
    + intros e He tx0 s0 t0 Hin. apply in_app_or in He. apply in_snoc' in Hin.
      destruct He as [He|[He|[]]]; destruct Hin as [Hin|Hin].
      * apply (HL e He _ _ _ Hin).
      * inversion Hin as [[E1 E2 E3 E4]]. exfalso. apply F1. rewrite <- E2. apply in_map. exact He.
      * subst e. cbn [new_entry e_cmd] in Hin. exfalso. apply (Fno _ _ _ Hin).
      * subst e. inversion Hin; subst. reflexivity.
  - split; assumption.
  - split; [apply same_seq_quiet; [exact HG|intros; discriminate]|].
    intros e He tx0 s0 t0 Hin. apply in_snoc' in Hin. destruct Hin as [Hin|Hin]; [|discriminate Hin].
    apply (HL e He _ _ _ Hin).
  - split; [apply same_seq_quiet; [exact HG|intros; discriminate]|].
    intros e He tx0 s0 t0 Hin. apply in_snoc' in Hin. destruct Hin as [Hin|Hin]; [|discriminate Hin].
    apply (HL e He _ _ _ Hin).
  - split; assumption.
  - split; [apply same_seq_quiet; [exact HG|intros; discriminate]|].
    intros e0 He tx0 s0 t0 Hin. apply in_snoc' in Hin. destruct Hin as [Hin|Hin]; [|discriminate Hin].
    apply (HL e0 (remove_entry_In _ _ _ He) _ _ _ Hin).
  - split; [apply same_seq_quiet; [exact HG|intros; discriminate]|].
    intros e He tx0 s0 t0 Hin. apply in_snoc' in Hin. destruct Hin as [Hin|Hin]; [|discriminate Hin].
    apply (HL e He _ _ _ Hin).
  - (* retransmission *)
    pose proof (D_out_nodup cf cmds _ Hnd HI) as Fnd. cbn [m_b b_out BS] in Fnd.
    assert (Fe : In e (pre ++ e :: post)) by (apply in_or_app; right; left; reflexivity).
    split.
    + intros tx0 c0 s0 t0 tx1 s1 t1 H1 H2. apply in_snoc' in H1. apply in_snoc' in H2.
      destruct H1 as [H1|H1]; destruct H2 as [H2|H2].
      * apply (HG _ _ _ _ _ _ _ H1 H2).
      * inversion H2; subst. apply (HL e Fe _ _ _ H1).
      * inversion H1; subst. symmetry. apply (HL e Fe _ _ _ H2).
      * inversion H1; inversion H2; subst. reflexivity.
    + intros x Hx tx0 s0 t0 Hin. apply in_bump2 in Hx. apply in_snoc' in Hin.
      destruct Hx as [Hx|Hx]; destruct Hin as [Hin|Hin].
      * subst x. cbn [bump e_cmd e_seq] in *. apply (HL e Fe _ _ _ Hin).
      * subst x. cbn [bump e_cmd e_seq] in *. inversion Hin; subst. reflexivity.
      * apply (HL x (in_mid_weaken _ _ _ _ Hx) _ _ _ Hin).
      * inversion Hin as [[E1 E2 E3 E4]]. exfalso. apply (nodup_mid_neq e_cmd pre e post x Fnd Hx). exact E2.
Qed.

Lemma star_seq_kept : forall cf cmds m m',
  config_ok cf -> NoDup (ids cmds) -> star cf m m' -> Inv cf cmds m -> seq_kept m -> seq_kept m'.
Proof.
  intros cf cmds m m' Hcf Hnd Hst. induction Hst as [m|m1 m2 m3 H12 H23 IH]; intros HI HS; [exact HS|].
  apply IH; [apply (astep_inv cf cmds m1 m2 Hcf Hnd HI H12)|apply (astep_seq_kept cf cmds m1 m2 Hnd HI HS H12)].
Qed.

Theorem retransmission_identical : forall cf cmds evs k tr oc k' rest,
  config_ok cf -> NoDup (ids cmds) ->
  burst cf cmds evs k = (tr, oc, k', rest) ->
  forall tx c s t tx' s' t', In (OSend tx c s t) tr -> In (OSend tx' c s' t') tr -> s = s'.
Proof.
  intros cf cmds evs k tr oc k' rest Hcf Hnd Hb. unfold burst in Hb.
  destruct (run_refines cf evs k (bstate0 cmds) [] tr oc k' rest Hb) as (m & Hst & Hend). cbn [app] in Hend.
  assert (HS : seq_kept m).
  { apply (star_seq_kept cf cmds _ m Hcf Hnd Hst); [apply inv_init; exact Hcf|].
    split; [intros tx c s t tx' s' t' []|intros e []]. }
  destruct HS as [HG _].
  destruct (ends_trace cf oc tr m Hend) as [E|[d E]]; subst tr; [exact HG|].
  apply same_seq_quiet; [exact HG|intros; discriminate].
Qed.

(* ---------------------------------------------------------------------------------------------- *)
(* the source the model mirrors is the source of the current /repo                                   *)
(* ---------------------------------------------------------------------------------------------- *)
Lemma source_shape :
  shape_send_scp_burst = mirrored_send_scp_burst /\ shape_send_scp = mirrored_send_scp /\ shape_init = mirrored_init
  /\ shape_seqs = mirrored_seqs.
Proof. repeat split; reflexivity. Qed.
