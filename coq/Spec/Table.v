(* What C04 asks of a table minimiser, stated on the input and the output table only, and the
   executable validator of that statement.  Definitions only (soundness of the validator:
   Proofs/TableCheck.v, theorem check_route_eq_sound).

   INTERFACE used by other properties (C01, C10):
     [key32], [nonempty_sources], [default_routable], [route_eq O T], [check_route_eq O T].

   The specification does not mention the generated enumerations: the six links are the integers
   0..5 and the opposite of link l is (l + 3) mod 6 (the SpiNNaker hardware numbering); a set of
   routes / sources is a bit set as in Model/Table.v (None is bit 24 of a sources set). *)
From Coq Require Import ZArith List Bool.
Require Import Rig.Generated.GenTable Rig.Model.Base Rig.Model.Table.
Import ListNotations.
Open Scope Z_scope.

Definition key32 (k : Z) : Prop := 0 <= k < 4294967296.

(* s is a subset of s' (bit sets) *)
Definition subset (s s' : Z) : Prop := Z.land s s' = s.
Definition subsetb (s s' : Z) : bool := Z.land s s' =? s.

(* The hardware default-routes a packet that matches no entry: it leaves by the link opposite the one
   it came in on.  An entry is replaceable by that behaviour when its packets come from exactly one
   link l (known, not None) and it sends them exactly to the opposite link. *)
Definition default_routable (e : entry) : Prop :=
  exists l, 0 <= l < 6 /\ e_sources e = Z.shiftl 1 l /\ e_route e = Z.shiftl 1 ((l + 3) mod 6).
Definition default_routableb (e : entry) : bool :=
  existsb (fun l => (e_sources e =? Z.shiftl 1 l) && (e_route e =? Z.shiftl 1 ((l + 3) mod 6)))
          [0; 1; 2; 3; 4; 5].

(* T routes like e: same set of links and cores, and it lists e's source directions *)
Definition routes_like (e e' : entry) : Prop :=
  e_route e' = e_route e /\ subset (e_sources e) (e_sources e').
Definition routes_likeb (e e' : entry) : bool :=
  (e_route e' =? e_route e) && subsetb (e_sources e) (e_sources e').

(* Every 32-bit key matched by O is routed by T exactly as by O: by T's first matching entry, or by
   default routing when O's entry went straight through from a single link. *)
Definition route_eq (O T : table) : Prop :=
  forall k e, key32 k -> lookup O k = Some e ->
    match lookup T k with
    | Some e' => routes_like e e'
    | None => default_routable e
    end.

(* the guard of the domain: every entry has at least one source direction ({None} counts) *)
Definition nonempty_sources (t : table) : Prop := forall e, In e t -> e_sources e <> 0.

(* The domain of the property.
   table32: keys and masks are 32-bit unsigned and no key bit lies outside its mask;
   sorted_by_generality: listed in increasing order of generality (number of Xs), read first-match;
   orthogonal: no two entries match a common 32-bit key (then the order does not matter). *)
Definition table32 (t : table) : Prop :=
  forall e, In e t ->
    0 <= e_key e <= 4294967295 /\ 0 <= e_mask e <= 4294967295
    /\ Z.land (e_key e) (Z.lnot (e_mask e)) = 0.

(* generality of an entry, stated independently of rig's _get_generality: the number of key bits
   0..31 that are X, i.e. clear in both the key and the mask (Proofs/TableBits.v, gen_of_spec: the
   regenerated kernel computes exactly this) *)
Definition spec_generality (e : entry) : Z :=
  Z.of_nat (length (filter (fun i => negb (Z.testbit (e_key e) i) && negb (Z.testbit (e_mask e) i))
                           (map Z.of_nat (seq 0 32)))).

Definition sorted_by_generality (t : table) : Prop :=
  forall i j a b, (i <= j)%nat -> nth_error t i = Some a -> nth_error t j = Some b ->
                  spec_generality a <= spec_generality b.

Definition orthogonal (t : table) : Prop :=
  forall i j a b k, i <> j -> nth_error t i = Some a -> nth_error t j = Some b ->
                    key32 k -> matches a k = true -> matches b k = false.

Definition minimiser_domain (t : table) : Prop :=
  table32 t /\ nonempty_sources t /\ (sorted_by_generality t \/ orthogonal t).

(* What the proofs actually need (minimiser_domain implies it): no bound on the keys, no condition on
   key bits outside the mask (an entry with such a bit matches nothing, before and after), and 32-bit
   masks only to make "orthogonal over 32-bit keys" mean "orthogonal". *)
Definition masks32 (t : table) : Prop := forall e, In e t -> 0 <= e_mask e <= 4294967295.
Definition minimiser_domain_loose (t : table) : Prop :=
  nonempty_sources t /\ (sorted_by_generality t \/ (masks32 t /\ orthogonal t)).

(* ------------------------------------------------------------------------------------------------ *)
(** * Vocabulary of the front-end theorems *)

(* a first step that keeps every matched key matched (ordered covering never drops a key) *)
Definition route_eq_matched (A B : table) : Prop :=
  forall k e, key32 k -> lookup A k = Some e -> exists e', lookup B k = Some e' /\ routes_like e e'.

(* What minimise_table needs of a method f on table t: run to the end (no target) it returns a table
   [full] that routes like t and is not longer; with a target it either returns a table that routes
   like t, is not longer and meets the target, or fails reporting exactly len full > target. *)
Definition method_ok (f : table -> option Z -> result table) (t : table) : Prop :=
  exists full,
    f t None = Ok full /\ route_eq t full /\ len full <= len t /\
    forall tl,
      match f t (Some tl) with
      | Ok r => route_eq t r /\ len r <= len t /\ len r <= tl
      | Failed n => n = len full /\ tl < n
      | OtherError | OutOfFuel => False
      end.

(* the size a method reaches when run to the end *)
Definition full_size (f : table -> option Z -> result table) (t : table) : Z :=
  match f t None with Ok full => len full | _ => len t end.

(* the smallest size reached by the methods, starting from [best] *)
Fixpoint best_size (ms : list (table -> option Z -> result table)) (t : table) (best : Z) : Z :=
  match ms with
  | [] => best
  | f :: ms' => best_size ms' t (Z.min best (full_size f t))
  end.

(* the table a result dictionary holds for a chip: absent means empty *)
Definition table_of (out : list (chip * table)) (c : chip) : table :=
  match cassoc c out with Some r => r | None => [] end.

(* ------------------------------------------------------------------------------------------------ *)
(** * The validator: decides route_eq without enumerating keys

   A cube is a well-formed (key, mask) pair read as the set of keys it matches.  [cube_sub c d] covers
   c \ d by cubes: for every bit where d is specified and c is not, one cube agreeing with d on the
   earlier such bits and disagreeing on this one.  The keys first-matched by an entry e of O are
   covered by [region]: e's cube minus the cubes of the entries before it.  Each such cube is walked
   down T ([check_cube]): an entry of T that meets the cube must route like e, and what is left of the
   cube after removing that entry goes on to the rest of T; what reaches the end of T must be
   default-routable. *)

Definition bits32 : list Z := map Z.of_nat (seq 0 32).

(* entries the validator accepts: 32-bit unsigned key and mask *)
Definition sane (e : entry) : bool :=
  (0 <=? e_key e) && (e_key e <=? 4294967295) && (0 <=? e_mask e) && (e_mask e <=? 4294967295).
(* no key bit outside the mask (an entry with such a bit matches no key) *)
Definition wf_km (c : km) : bool := Z.land (fst c) (Z.lnot (snd c)) =? 0.

Fixpoint cube_sub_bits (bits : list Z) (ck cm dk dm : Z) : list km :=
  match bits with
  | [] => []
  | b :: bs =>
      if Z.testbit dm b && negb (Z.testbit cm b) then
        let bit := Z.shiftl 1 b in
        let cm' := Z.lor cm bit in
        if Z.testbit dk b
        then (ck, cm') :: cube_sub_bits bs (Z.lor ck bit) cm' dk dm
        else (Z.lor ck bit, cm') :: cube_sub_bits bs ck cm' dk dm
      else cube_sub_bits bs ck cm dk dm
  end.

(* c \ d for well-formed cubes *)
Definition cube_sub (c d : km) : list km :=
  if intersect (fst c) (snd c) (fst d) (snd d)
  then cube_sub_bits bits32 (fst c) (snd c) (fst d) (snd d)
  else [c].

(* cubes covering the keys of [cs] matched by none of [earlier] *)
Fixpoint region (cs : list km) (earlier : table) : list km :=
  match earlier with
  | [] => cs
  | d :: ds =>
      if wf_km (km_of d)
      then region (flat_map (fun c => cube_sub c (km_of d)) cs) ds
      else region cs ds
  end.

(* every key of cube c, matched by none of the entries of T already passed, is routed like e *)
Fixpoint check_cube (e : entry) (T : table) (c : km) {struct T} : bool :=
  match T with
  | [] => default_routableb e
  | t :: T' =>
      if wf_km (km_of t) && intersect (fst c) (snd c) (e_key t) (e_mask t)
      then routes_likeb e t
           && forallb (check_cube e T') (cube_sub_bits bits32 (fst c) (snd c) (e_key t) (e_mask t))
      else check_cube e T' c
  end.

(* [before] are the entries of O above e (in any order) *)
Fixpoint check_from (before : table) (O : table) (T : table) : bool :=
  match O with
  | [] => true
  | e :: r =>
      (if wf_km (km_of e) then forallb (check_cube e T) (region [km_of e] before) else true)
      && check_from (e :: before) r T
  end.

Definition check_route_eq (O T : table) : bool :=
  forallb sane O && forallb sane T && check_from [] O T.

(* other clauses of the property, as booleans for the harness *)
Definition not_longer (O T : table) : bool := len T <=? len O.
