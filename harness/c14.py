"""C14 -- probed system description and derived machine model match the machine.

theorems (Props/C14.v)  +  correspondence of the Gallina model (Model/Probe.v, resting on the expressions
and tables regenerated from /repo into Generated/GenProbe.v) with the real MachineController / build_machine /
build_core_constraints run, datagram by datagram, against a simulated machine (sim_machine_c14.py)  +  an
independent oracle comparing what the library reported with the simulated machine's ground truth."""
import json
import os

import lib
from lib import zlit, vlist

LEVEL = "proof"
UNITS = ["GenProbe"]

APPSTATES = [0, 1, 2, 3, 4, 5, 6, 7, 8, 9, 10, 11, 15]
IDLE = 15
N_TRIES = 5


# ------------------------------------------------------------------------------------------- generator
def gen_states(rng, pattern, shared_busy):
    st = []
    for p in range(18):
        if pattern == "fresh":
            s = 7 if p == 0 else IDLE
        elif pattern == "shared":
            s = 7 if p == 0 else (shared_busy[p] if p in shared_busy else IDLE)
        elif pattern == "shared+own":
            s = 7 if p == 0 else (shared_busy[p] if p in shared_busy else
                                  (rng.choice(APPSTATES) if rng.random() < 0.25 else IDLE))
        elif pattern == "allbusy":
            s = rng.choice([s_ for s_ in APPSTATES if s_ != IDLE])
        elif pattern == "allidle":
            s = IDLE
        else:
            s = rng.choice(APPSTATES + [IDLE] * 6)
        st.append(s)
    return st


def gen_vcpu(rng, iobuf_addr, malformed=None):
    r32 = lambda: rng.choice([0, 1, 0xffffffff, 0x80000000, rng.getrandbits(32), rng.getrandbits(32)])
    r8 = lambda: rng.choice([0, 1, 255, rng.getrandbits(8)])
    name = [rng.choice(b"abcdefghijklmnopqrstuvwxyz_0123456789ABC.-") for _ in range(rng.choice([0, 1, 5, 9, 15, 16]))]
    if malformed == "appname_nul" and len(name) >= 3:
        name[len(name) // 2] = 0
        name[0] = 0
    name = (name + [0] * 16)[:16]
    v = {"r%d" % i: r32() for i in range(8)}
    v.update(psr=r32(), sp=r32(), lr=r32(), rt_code=rng.randint(0, 20), phys_cpu=r8(),
             cpu_state=rng.choice(APPSTATES), app_id=r8(), mbox_ap_msg=r32(), mbox_mp_msg=r32(),
             mbox_ap_cmd=r8(), mbox_mp_cmd=r8(), sw_count=rng.choice([0, 1, 0xffff, rng.getrandbits(16)]),
             sw_file=r32(), sw_line=r32(), time=r32(), app_name=name, iobuf=iobuf_addr, sw_ver=r32(),
             user0=r32(), user1=r32(), user2=r32(), user3=r32(), pad=[r32(), r32(), r32(), r32()])
    if malformed == "bad_cpu_state":
        v["cpu_state"] = rng.choice([12, 13, 14, 16, 200])
    if malformed == "bad_rt_code":
        v["rt_code"] = rng.choice([21, 22, 255])
    return v


def make_probes(rng, picks, malformed=None, avoid=None):
    """Per-core probes for the (chip, core) pairs `picks`; `avoid` = {chip: vcpu_base values not to be used again}."""
    probes, used = [], {}
    for xy, p in picks:
        if xy not in used:
            base = rng.choice([0xe5007000, 0x60000000 + 4 * rng.getrandbits(16)])
            while avoid and base in avoid.get(xy, ()):
                base = 0x60000000 + 4 * rng.getrandbits(16)
            used[xy] = dict(vcpu_base=base, iobuf_size=rng.choice([16, 18, 33, 40, 67, 100, 255, 256] + ([0x1023] if rng.random() < 0.04 else [])),
                            next_addr=[0x60100000 + 4 * rng.getrandbits(10)],
                            router=[rng.choice([0, 1, 0xffffffff, rng.getrandbits(32)]) for _ in range(16)])
        ctx = used[xy]
        size = ctx["iobuf_size"]
        blocks = []
        text_only = rng.random() < 0.7
        for _b in range(rng.choice([0, 1, 1, 2, 3, 5]) if size < 1000 else 2):
            addr = ctx["next_addr"][0]
            ctx["next_addr"][0] += size + 16 + 4 * rng.randint(0, 8)
            length = rng.choice([0, 1, size, size, size, max(0, size - 1), rng.randint(0, size)])     # often filled to capacity
            if malformed == "iobuf_overlong" and rng.random() < 0.6:
                length = size + rng.choice([1, 5, 1000])
            if text_only:
                payload = [rng.choice(b"abc xyz\n0123456789:=%") for _ in range(size)]
            else:
                payload = [rng.getrandbits(8) for _ in range(size)]
            if rng.random() < 0.35 and 1 <= length <= size:
                # binary / NUL-terminated content: NUL bytes inside the valid bytes and at their end
                for q in range(rng.choice([1, 1, 2, 3])):
                    if length - 1 - q >= 0:
                        payload[length - 1 - q] = 0
                if length >= 3 and rng.random() < 0.5:
                    payload[rng.randrange(length)] = 0
                if rng.random() < 0.3:
                    payload[0] = 0
            blocks.append(dict(addr=addr, time=rng.getrandbits(32), ms=rng.getrandbits(32), length=length,
                               payload=payload))
        probes.append(dict(chip=list(xy), p=p, vcpu_base=ctx["vcpu_base"], iobuf_size=size,
                           vcpu=gen_vcpu(rng, blocks[0]["addr"] if blocks else 0,
                                         malformed if malformed in ("appname_nul", "bad_cpu_state", "bad_rt_code") else None),
                           iobuf=blocks, router=ctx["router"]))
    return probes


def gen_history(rng, idx, tier):
    """ONE controller, the same chips, two or three successive machine states (a reboot between them): the later
    states differ in sv->vcpu_base, iobuf_size, the vcpu blocks / IOBUF chains / router counters of the probed cores,
    core counts, core states, link patterns, free memory, which chips answer.  The dimensions, the P2P table, the boot
    chip and the sver reply (hence the SCP buffer size the controller has learnt) stay."""
    import copy
    first = None
    for _ in range(50):
        first = gen_case(rng, 8 * idx, tier)                    # 8 * idx: never a malformed machine or a sliver
        if first["probes"] and first["dims"][0] * first["dims"][1] <= 64 and not first["sliver"]:
            break
    stages = [first]
    picks = []
    for pr in first["probes"]:
        picks.append((tuple(pr["chip"]), pr["p"]))
    used_bases = {}
    for pr in first["probes"]:
        used_bases.setdefault(tuple(pr["chip"]), set()).add(pr["vcpu_base"])
    for k in range(rng.choice([1, 1, 2])):
        st = copy.deepcopy(stages[-1])
        probed = set(xy for xy, _ in picks)
        asked = probed | set((q[0], q[1]) for q in st["sver_queries"])       # chips addressed directly must answer
        for x, y, c in st["chips"]:
            if rng.random() < 0.5:
                new = simple_chip(rng, nc=rng.choice([18, 17, rng.randint(0, 18)]))
                new["answer"] = c["answer"]
                c.clear()
                c.update(new)
            if (x, y) in asked or [x, y] == st["boot"]:
                c["answer"] = "ok"
            elif rng.random() < 0.15:
                c["answer"] = rng.choice(["ok", "silent", ["rc", 0x8b]])
        extra = []
        if rng.random() < 0.3:
            extra = [(rng.choice(sorted(probed)), rng.randrange(18))]
        newpicks = picks + [e for e in extra if e not in picks]
        st["probes"] = make_probes(rng, newpicks, None, used_bases)
        for pr in st["probes"]:
            used_bases.setdefault(tuple(pr["chip"]), set()).add(pr["vcpu_base"])
        st["also_get_machine"] = rng.random() < 0.3
        stages.append(st)
    return dict(kind="history", stages=stages, dims=first["dims"], chips=first["chips"], sver=first["sver"],
                probes=first["probes"], sliver=False)


VCPU_LAYOUT_FIELDS = ([("r%d" % i, 4, 4) for i in range(8)] +
                      [("psr", 4, 4), ("sp", 4, 4), ("lr", 4, 4), ("rt_code", 1, 1), ("phys_cpu", 1, 1), ("cpu_state", 1, 1),
                       ("app_id", 1, 1), ("mbox_ap_msg", 4, 4), ("mbox_mp_msg", 4, 4), ("mbox_ap_cmd", 1, 1),
                       ("mbox_mp_cmd", 1, 1), ("sw_count", 2, 2), ("sw_file", 4, 4), ("sw_line", 4, 4), ("time", 4, 4),
                       ("app_name", 16, 1), ("iobuf", 4, 4), ("sw_ver", 4, 4), ("__PAD", 16, 4),
                       ("user0", 4, 4), ("user1", 4, 4), ("user2", 4, 4), ("user3", 4, 4)])


def gen_layout(rng):
    """Another memory layout of the `sv` and `vcpu` structs (another build of the system software): base moved, the
    fields read while probing moved to other (aligned, non-overlapping) places, the vcpu block resized and its fields
    permuted."""
    slots = rng.sample(range(0, 256, 4), 5)
    sv = dict(p2p_dims=slots[0] + rng.choice([0, 2]), eth_addr=slots[1] + rng.choice([0, 2]), iobuf_size=slots[2],
              num_cpus=slots[3] + rng.randrange(4), vcpu_base=slots[4])
    fields = list(VCPU_LAYOUT_FIELDS)
    if rng.random() < 0.7:
        rng.shuffle(fields)
    off = rng.choice([0, 0, 4, 8, 32])
    vcpu = {}
    for name, size, align in fields:
        off = (off + align - 1) // align * align
        vcpu[name] = off
        off += size
    base = rng.choice([0xf5007f00, 0xf5007e00, 0xe5007f00, 0xf5007c00])
    if rng.random() < 0.4:                 # the machine extent is still found; only the per-core data moved
        base = 0xf5007f00
        a, b = rng.sample([o for o in range(0, 256, 4) if o not in (0, 8, 0xbc)], 2)
        sv = dict(p2p_dims=2, eth_addr=8, num_cpus=0xbc, iobuf_size=a, vcpu_base=b)
    return dict(sv_base=base, sv=sv,
                vcpu_size=(off + 7) // 8 * 8 + rng.choice([0, 0, 32]), vcpu=vcpu)


def gen_duo(rng, idx, tier):
    """SEVERAL controllers in one interpreter, each created with its own `structs` (the packaged struct file, or a
    layout whose sv / vcpu fields are moved and resized) and probing its own machine, whose memory is laid out
    accordingly: A then B, B then A, or interleaved (each controller's machine changing state in between as in a
    history).  Every probe is judged against the machine state its controller was talking to."""
    ha, hb = gen_history(rng, idx, tier), gen_history(rng, idx + 1, tier)
    la = None if rng.random() < 0.8 else gen_layout(rng)
    lb = gen_layout(rng)
    order = rng.choice([[0, 1], [1, 0], [0, 1, 0, 1], [1, 0, 1, 0], [0, 1, 1, 0]])
    nxt = {0: 0, 1: 0}
    stages = []
    for k in order:
        st = dict((ha, hb)[k]["stages"][nxt[k]])
        nxt[k] += 1
        st["layout"] = (la, lb)[k]
        stages.append(st)
    first = stages[0]
    return dict(kind="duo", stages=stages, ctrl=order, ctrl_layouts=[la, lb], dims=first["dims"], chips=first["chips"],
                sver=first["sver"], probes=first["probes"], sliver=False)


def gen_case(rng, idx, tier):
    malformed = None
    if idx % 8 == 7:
        malformed = rng.choice(["badstate", "shortinfo", "noroute", "nc>18", "badsver", "iobuf_overlong",
                                "dims0", "appname_nul", "bad_cpu_state", "bad_rt_code", "longinfo"])
    sliver = (idx % 50 == 11)
    if sliver:
        k = rng.randint(1, 3)
        w, h = (255, k) if rng.random() < 0.6 else (k, 255)
    else:
        w = rng.choice([1, 1, 2, 2, 3, 3, 4, 4, 5, 6, 7, 8, 8, 9, 10, 12])
        h = rng.choice([1, 2, 2, 3, 4, 5, 6, 7, 7, 8, 8, 9, 9, 10, 12, 12])
        if tier == "thorough" and rng.random() < 0.05:
            h = rng.choice([15, 16, 17, 23, 24, 25])
    if malformed == "dims0":
        if rng.random() < 0.5:
            w = 0
        else:
            h = 0
    # ---- which chips have a route, which answer
    hole = rng.choice(["none", "none", "random", "random", "row", "corner", "many"])
    pdead = {"none": 0.0, "random": 0.08, "row": 0.0, "corner": 0.0, "many": 0.4}[hole]
    cut_row = rng.randrange(h) if h else 0
    chips_xy = [(x, y) for x in range(w) for y in range(h)]
    boot = (0, 0)
    if chips_xy and rng.random() < 0.25:
        boot = rng.choice(chips_xy)
    routes, routed = [], []
    for (x, y) in chips_xy:
        dead = rng.random() < pdead or (hole == "row" and y == cut_row and h > 1) or \
            (hole == "corner" and x >= w - w // 3 and y >= h - h // 3 and (x, y) != (0, 0))
        if (x, y) == boot:
            e = 7
        elif dead or malformed == "noroute":
            e = 6
        else:
            e = rng.choice([0, 1, 2, 3, 4, 5])
            if rng.random() < 0.02:
                e = 7
        if malformed == "noroute" and (x, y) == boot:
            e = 6
        routes.append([x, y, e])
        if e != 6:
            routed.append((x, y))
    fill = rng.choice([6, 6, 0, 5, 7])
    # a few table entries outside the dimensions (never to be reported)
    for _ in range(rng.choice([0, 0, 2, 5])):
        x, y = rng.choice([(w, rng.randrange(0, 8)), (rng.randrange(0, max(w, 1)), h),
                           (rng.randrange(0, max(w, 1)), h + rng.randrange(0, 8))])
        if x < 256 and y < 256 and (x >= w or y >= h) and [x, y] not in [r[:2] for r in routes]:
            routes.append([x, y, rng.choice([0, 1, 2, 3, 4, 5, 7])])
    # ---- chip states
    base_nc = rng.choice([18, 18, 18, 17, 16, 1])
    base_sdram = rng.choice([119275492, 0x7000000, 0xffffffff, 1 << 20])
    base_sram = rng.choice([22240, 0x8000, 0xffffffff, 0])
    state_pattern = rng.choice(["fresh", "shared", "shared+own", "shared+own", "random", "allbusy", "allidle"])
    shared_busy = {p: rng.choice([s for s in APPSTATES if s != IDLE])
                   for p in rng.sample(range(1, 18), rng.choice([0, 1, 3, 6, 17]))}
    link_pattern = rng.choice(["all", "all", "periphery", "random", "none"])
    chips = []
    unresponsive_p = rng.choice([0.0, 0.0, 0.05, 0.2])
    bad_one = rng.choice(routed) if (routed and malformed in ("badstate", "shortinfo", "nc>18", "longinfo")) else None
    for (x, y) in routed:
        nc = base_nc if rng.random() < 0.8 else rng.randint(0, 18)
        pat = state_pattern if rng.random() < 0.9 else "random"
        states = gen_states(rng, pat, shared_busy)
        for p in range(nc, 18):
            states[p] = rng.choice([0, 0, 0, IDLE, rng.choice(APPSTATES)])
        if link_pattern == "all":
            links = 63
        elif link_pattern == "none":
            links = 0
        elif link_pattern == "random":
            links = rng.getrandbits(6)
        else:
            links = 63
            if x == 0:
                links &= ~((1 << 3) | (1 << 4))
            if y == 0:
                links &= ~((1 << 4) | (1 << 5))
            if x == w - 1:
                links &= ~((1 << 0) | (1 << 1))
            if y == h - 1:
                links &= ~((1 << 1) | (1 << 2))
        if rng.random() < 0.1:
            links = rng.getrandbits(6)
        c = dict(nc=nc, states=states, links=links,
                 sdram=base_sdram if rng.random() < 0.8 else rng.choice([0, 1, rng.getrandbits(32), 0xffffffff]),
                 sram=base_sram if rng.random() < 0.8 else rng.choice([0, 1, rng.getrandbits(32), 0xffffffff]),
                 rtr=rng.choice([1023, 1023, 0, 1, 1024, 2047, rng.getrandbits(11)]),
                 eth_up=1 if ((x % 8, y % 8) == (0, 0) or rng.random() < 0.05) else 0,
                 ip=[rng.choice([0, 10, 192, 255, rng.getrandbits(8)]) for _ in range(4)],
                 eth=[(x // 8) * 8, (y // 8) * 8] if rng.random() < 0.8 else [rng.getrandbits(8), rng.getrandbits(8)],
                 answer="ok")
        if (x, y) != boot and rng.random() < unresponsive_p:
            c["answer"] = rng.choice(["silent", ["rc", rng.choice([0x8b, 0x87, 0x8e, 0x8c, 0x86, 0x88])],
                                      ["flaky", N_TRIES + rng.randint(0, 2), rng.choice(["drop", "busy"])]])
        elif rng.random() < 0.06:
            c["answer"] = rng.choice([["flaky", rng.randint(1, N_TRIES - 1), rng.choice(["drop", "busy", "sum"])],
                                      ["busy_for", rng.choice([0.001, 0.05, 0.4])]])     # shorter than one time-out
        if (x, y) == bad_one:
            c["answer"] = "ok"
            if malformed == "badstate":
                c["states"][rng.randrange(18)] = rng.choice([12, 13, 14, 16, 99, 255])
            elif malformed == "shortinfo":
                c["data_len"] = rng.choice([0, 5, 18, 23])
            elif malformed == "longinfo":
                c["data_len"] = rng.choice([25, 40])
            elif malformed == "nc>18":
                c["nc"] = rng.randint(19, 31)
        chips.append([x, y, c])
    # chips that would answer but have no route (must be neither probed nor reported)
    for (x, y) in chips_xy:
        if (x, y) not in routed and rng.random() < 0.3:
            chips.append([x, y, dict(nc=18, states=[7] + [IDLE] * 17, links=63, sdram=1, sram=1, rtr=1, eth_up=0,
                                     ip=[0, 0, 0, 0], eth=[0, 0], answer="ok")])
    # "ghost" chips: outside the booted dimensions, with a table entry and an answer (never to be reported)
    if w and h and rng.random() < 0.35:
        for _ in range(rng.randint(1, 3)):
            x, y = rng.choice([(rng.randrange(w), h + rng.randrange(0, 8)), (w, rng.randrange(h)),
                               (rng.randrange(w), h)])
            if x < 256 and y < 256 and not any(r[0] == x and r[1] == y for r in routes):
                routes.append([x, y, rng.choice([0, 1, 2, 3, 4, 5])])
                chips.append([x, y, dict(nc=18, states=[7] + [IDLE] * 17, links=63, sdram=5, sram=5, rtr=5, eth_up=0,
                                         ip=[0, 0, 0, 0], eth=[0, 0], answer="ok")])
    if not any((x, y) == boot for x, y, _ in chips):
        chips.append([boot[0], boot[1], dict(nc=18, states=[7] + [IDLE] * 17, links=63, sdram=1, sram=1, rtr=1,
                                             eth_up=0, ip=[0, 0, 0, 0], eth=[0, 0], answer="ok")])
    # ---- software version
    enc = rng.choice(["legacy", "semver"])
    name = list(rng.choice([b"SC&MP/SpiNNaker", b"SARK/SpiNNaker", b"BC&MP/Spin5-BMP", b"x", b""]))
    if enc == "legacy":
        ver = [rng.choice([1, 1, 0, 2, 13, 655]), rng.choice([0, 33, 34, 99, 7]), 0]
        if ver[0] * 100 + ver[1] >= 0xffff:
            ver = [654, 99, 0]
        labels, vtext = [], []
    else:
        ver = [rng.choice([0, 1, 2, 3, 10, 123456789]), rng.choice([0, 1, 9, 10, 99, 100]), rng.choice([0, 1, 5, 12, 1000])]
        labels = list(rng.choice([b"", b"", b"-dev", b"-rc.1+build.5", b"+20160102", b" beta", b"-a.b-c", b".4"]))
        vtext = list(("%d.%d.%d" % tuple(ver)).encode()) + labels
        if rng.random() < 0.15:
            vtext = [ord("0")] * rng.randint(1, 2) + vtext           # leading zeros in the major number
    sver = dict(buffer_size=rng.choice([256, 256, 256, 128, 100, 64, 255, 511]), encoding=enc, name=name,
                version=ver, labels=labels, vtext=vtext, build_date=rng.choice([0, 1459253424, 0xffffffff]),
                pcpu=rng.getrandbits(8), nuls=rng.choice([1, 1, 0, 0, 2, 5]))
    if malformed == "badsver":
        sver["encoding"] = "semver"
        sver["vtext"] = list(rng.choice([b"", b"1.2", b"1.2.", b"a.b.c", b"1..2", b"1.2.3\n4", b".1.2.3", b"v1.2.3",
                                         b"1.2.3-a\nb", b"1.2.3\n", b"1.2.3-x\n"]))
    # ---- per-core probes
    answering = [(x, y) for x, y, c in chips if c["answer"] == "ok" and (x, y) in routed]
    probes = []
    if answering and malformed not in ("noroute", "dims0"):
        picks = []
        for _ in range(rng.choice([1, 1, 2, 3])):
            pick = (rng.choice(answering), rng.randrange(0, 18))
            if pick not in picks:
                picks.append(pick)
        probes = make_probes(rng, picks, malformed)
    sq = [[255, 255, 0]]
    if answering:
        xy = rng.choice(answering)
        sq.append([xy[0], xy[1], rng.randrange(18)])
    cq = []
    for _ in range(6):
        cq.append([rng.randint(0, max(w, 1)), rng.randint(0, max(h, 1)), rng.randint(0, 18),
                   rng.randint(0, 5), rng.choice(APPSTATES)])
    grid = [[x, y] for x in range(-1, w + 1) for y in range(-1, h + 1)]
    if len(grid) > 400:
        grid = [[-1, -1], [0, 0], [w - 1, h - 1], [w, h], [w - 1, 0], [0, h - 1]] + rng.sample(grid, 60)
    return dict(copy=rng.choice([None] * 7 + ["copy", "deepcopy", "pickle", "pickle0", "items-deepcopy", "positional", "replace"]),
                mq=grid, kind="valid" if malformed is None else malformed, dims=[w, h], boot=list(boot), fill=fill,
                routes=routes, chips=chips, sver=sver, probes=probes, sver_queries=sq, contains_queries=cq,
                also_get_machine=(idx % 5 == 0), sliver=sliver)


def simple_chip(rng, nc=None, links=None, states=None):
    nc = rng.randint(0, 18) if nc is None else nc
    states = [rng.choice(APPSTATES + [IDLE] * 4) for _ in range(18)] if states is None else states
    return dict(nc=nc, states=states, links=rng.getrandbits(6) if links is None else links,
                sdram=rng.getrandbits(32), sram=rng.getrandbits(32), rtr=rng.getrandbits(11),
                eth_up=rng.getrandbits(1), ip=[rng.getrandbits(8) for _ in range(4)],
                eth=[rng.getrandbits(8), rng.getrandbits(8)], answer="ok")


def skeleton(rng, w, h, routes, chips, kind="valid"):
    grid = [[x, y] for x in range(-1, w + 1) for y in range(-1, h + 1)]
    if len(grid) > 400:
        grid = [[-1, -1], [0, 0], [w - 1, h - 1], [w, h], [w - 1, 0], [0, h - 1]] + rng.sample(grid, 60 if len(grid) < 10000 else 10)
    sver = dict(buffer_size=256, encoding="legacy", name=list(b"SC&MP/SpiNNaker"), version=[1, 33, 0], labels=[],
                vtext=[], build_date=0, pcpu=0)
    return dict(mq=grid, kind=kind, dims=[w, h], boot=[0, 0], fill=rng.choice([6, 0, 7]), routes=routes, chips=chips,
                sver=sver, probes=[], sver_queries=[[255, 255, 0]], contains_queries=[], also_get_machine=False,
                sliver=(max(w, h) > 12))


def gen_exhaustive(rng):
    """Thorough tier: finite sub-domains enumerated completely -- every table height 1..255 (with widths 1, 2 and
    255 at the extremes), every 6-bit link mask, every 5-bit core count, every AppState in every core position."""
    cases = []
    for h in range(1, 256):
        w = 255 if h in (1, 255, 8, 9) else rng.choice([1, 2])
        picks = set([(0, 0), (w - 1, h - 1), (0, h - 1), (w - 1, 0)] +
                    [(rng.randrange(w), rng.randrange(h)) for _ in range(8)])
        routes = [[x, y, (7 if (x, y) == (0, 0) else rng.randrange(6)) if (x, y) in picks else 6]
                  for x in range(w) for y in range(h)]
        chips = [[x, y, simple_chip(rng)] for (x, y) in sorted(picks)]
        for k in range(3):
            if rng.random() < 0.5 and h + k < 256:                  # ghost rows just beyond the height
                routes.append([0, h + k, rng.randrange(6)])
                chips.append([0, h + k, simple_chip(rng)])
        cases.append(skeleton(rng, w, h, routes, chips))
    # all link masks and all representable core counts on one 8 x 8 machine each
    routes = [[x, y, 7 if (x, y) == (0, 0) else (x + y) % 6] for x in range(8) for y in range(8)]
    cases.append(skeleton(rng, 8, 8, routes, [[x, y, simple_chip(rng, links=8 * x + y)] for x in range(8) for y in range(8)]))
    cases.append(skeleton(rng, 8, 8, routes, [[x, y, simple_chip(rng, nc=(8 * x + y) % 19)] for x in range(8) for y in range(8)]))
    cases.append(skeleton(rng, 8, 8, routes, [[x, y, simple_chip(rng, nc=(8 * x + y) % 32)] for x in range(8) for y in range(8)],
                          kind="nc>18"))
    # every AppState in every core position (18 x 13 chips on a 18 x 13 machine)
    routes = [[x, y, 7 if (x, y) == (0, 0) else 2] for x in range(18) for y in range(13)]
    chips = []
    for x in range(18):
        for y in range(13):
            st = [IDLE] * 18
            st[x] = APPSTATES[y]
            chips.append([x, y, simple_chip(rng, nc=18, states=st)])
    cases.append(skeleton(rng, 18, 13, routes, chips))
    # every router block size 0..2047 is covered by the random stream only in part: sweep it over 8 machines
    for k in range(8):
        routes = [[x, y, 7 if (x, y) == (0, 0) else 1] for x in range(16) for y in range(16)]
        chips = []
        for x in range(16):
            for y in range(16):
                c = simple_chip(rng)
                c["rtr"] = 256 * k + 16 * x + y
                chips.append([x, y, c])
        cases.append(skeleton(rng, 16, 16, routes, chips))
    return cases


# ------------------------------------------------------------------------------------------- ground truth
class Truth(object):
    """What the simulated machine is, computed from the case alone (no reference to rig or to the model)."""

    def __init__(self, c):
        w, h = c["dims"]
        self.responds = {}
        route = {(x, y): e for x, y, e in c["routes"]}
        chips = {(x, y): cs for x, y, cs in c["chips"]}
        self.live = {}
        for x in range(w):
            for y in range(h):
                if route.get((x, y), c["fill"]) == 6:
                    continue
                cs = chips.get((x, y))
                if cs is None:
                    continue
                a = cs["answer"]
                ok = a == "ok" or (isinstance(a, list) and ((a[0] == "flaky" and a[1] < N_TRIES) or a[0] == "busy_for"))
                if ok:
                    self.live[(x, y)] = cs
        self.chips = chips

    def ip_text(self, cs):
        return "%d.%d.%d.%d" % tuple(cs["ip"])

    def busy(self, cs):
        return set(p for p in range(min(cs["nc"], 18)) if cs["states"][p] != IDLE)


def text(codes):
    return "".join(chr(k) for k in codes)


def oracle_one(c, out):
    """The sentences of C14 decided on the implementation's observations against the ground truth.
    Returns a list of (key, message)."""
    bad = []
    if c["kind"] != "valid":
        return bad                      # malformed machine states: correspondence only
    if out == ["hang"]:
        return [("hang", "probing does not terminate (no result within the per-case time limit)")]
    T = Truth(c)
    si = out.get("sysinfo")
    if si is None or si[0] != "ok":
        return [("sysinfo-raises", "get_system_info raised %r on a well-formed machine" % (si,))]
    _, W, H, rows = si
    rep = {(r[0], r[1]): r[2:] for r in rows}
    if len(rep) != len(rows):
        bad.append(("sysinfo-duplicate-chip", "a chip is reported twice"))
    if set(rep) != set(T.live):
        extra, missing = sorted(set(rep) - set(T.live)), sorted(set(T.live) - set(rep))
        bad.append(("sysinfo-chips", "reported chips differ from the responding chips: extra %r missing %r"
                    % (extra[:5], missing[:5])))
    for xy, cs in T.live.items():
        if xy not in rep:
            continue
        nc, states, links, sdram, sram, rtr, eth_up, ip, ex, ey, typed = rep[xy]
        want_links = [l for l in range(6) if (cs["links"] >> l) & 1]
        if nc != cs["nc"]:
            bad.append(("chip-num-cores", "chip %r: %d cores reported, %d working" % (xy, nc, cs["nc"])))
        if states != cs["states"][:cs["nc"]]:
            bad.append(("chip-core-states", "chip %r: core states %r, machine has %r" % (xy, states, cs["states"][:cs["nc"]])))
        if links != want_links:
            bad.append(("chip-links", "chip %r: working links %r, machine has %r" % (xy, links, want_links)))
        if sdram != cs["sdram"] or sram != cs["sram"]:
            bad.append(("chip-free-memory", "chip %r: free SDRAM/SRAM %r, machine has %r" % (xy, (sdram, sram), (cs["sdram"], cs["sram"]))))
        if rtr != cs["rtr"]:
            bad.append(("chip-router-block", "chip %r: free router block %d, machine has %d" % (xy, rtr, cs["rtr"])))
        if eth_up != cs["eth_up"] or (ex, ey) != tuple(cs["eth"]) or (cs["eth_up"] and text(ip) != T.ip_text(cs)):
            bad.append(("chip-ethernet", "chip %r: ethernet (%r, %r, %r), machine has (%r, %r, %r)"
                        % (xy, eth_up, text(ip), (ex, ey), cs["eth_up"], T.ip_text(cs), tuple(cs["eth"]))))
    if bad:
        return bad
    # ---- views of the description
    want_links = sorted([x, y, l] for (x, y), cs in T.live.items() for l in range(6) if (cs["links"] >> l) & 1)
    want_dead_links = sorted([x, y, l] for (x, y), cs in T.live.items() for l in range(6) if not (cs["links"] >> l) & 1)
    if sorted(out["si_links"]) != want_links:
        bad.append(("si-links", "SystemInfo.links() differs from the machine's working links"))
    if sorted(out["si_dead_links"]) != want_dead_links:
        bad.append(("si-dead-links", "SystemInfo.dead_links() is not the complement of the working links"))
    if sorted(out["si_cores"]) != sorted([x, y, p, cs["states"][p]] for (x, y), cs in T.live.items() for p in range(cs["nc"])):
        bad.append(("si-cores", "SystemInfo.cores() differs from the machine's cores"))
    if sorted((x, y, text(ip)) for x, y, ip in out["si_eth"]) != sorted((x, y, T.ip_text(cs)) for (x, y), cs in T.live.items() if cs["eth_up"]):
        bad.append(("si-ethernet", "ethernet_connected_chips() differs from the machine's"))
    dead = set(tuple(d) for d in out["si_dead_chips"])
    if dead & set(T.live) or any((x, y) not in dead for x in range(W) for y in range(H) if (x, y) not in T.live):
        bad.append(("si-dead-chips", "dead_chips() is not the complement of the responding chips"))
    if any(not (0 <= x < W and 0 <= y < H) for (x, y) in T.live):
        bad.append(("si-bounds", "a responding chip lies outside width x height"))
    for q, a in zip(c["contains_queries"], out["si_contains"]):
        x, y, p, l, s = q
        cs = T.live.get((x, y))
        want = [1 if cs else 0, 1 if cs and p < cs["nc"] else 0, 1 if cs and (cs["links"] >> l) & 1 else 0,
                1 if cs and p < cs["nc"] and cs["states"][p] == s else 0]
        if a != want:
            bad.append(("si-contains", "SystemInfo.__contains__ %r answers %r, machine %r" % (q, a, want)))
    # ---- the place-and-route machine
    for label in ("machine", "get_machine"):
        m = out.get(label)
        if m is None:
            continue
        if isinstance(m, list):
            bad.append((label + "-raises", "%s raised %r" % (label, m)))
            continue
        if m["res"] == ["badkeys"] or any(e[2:] == ["badkeys"] for e in m["exc"]) or not m["links_typed"]:
            bad.append((label + "-resources", "resources are not exactly Cores, SDRAM, SRAM"))
            continue
        dead_set = set(map(tuple, m["dead_chips"]))
        dead_link_set = set(map(tuple, m["dead_links"]))
        inside = lambda x, y: 0 <= x < m["w"] and 0 <= y < m["h"] and (x, y) not in dead_set
        exc = {(e[0], e[1]): e[2:] for e in m["exc"]}
        mchips = set((x, y) for x in range(m["w"]) for y in range(m["h"]) if inside(x, y))
        if mchips != set(T.live):
            bad.append((label + "-chips", "the Machine's chips differ from the responding chips: extra %r missing %r"
                        % (sorted(mchips - set(T.live))[:5], sorted(set(T.live) - mchips)[:5])))
            continue
        for xy, cs in T.live.items():
            if exc.get(xy, m["res"]) != [cs["nc"], cs["sdram"], cs["sram"]]:
                bad.append((label + "-resources", "Machine[%r] = %r, the chip has %r"
                            % (xy, exc.get(xy, m["res"]), [cs["nc"], cs["sdram"], cs["sram"]])))
                break
            for l in range(6):
                if ((xy[0], xy[1], l) not in dead_link_set) != bool((cs["links"] >> l) & 1):
                    bad.append((label + "-links", "link %r of chip %r: Machine and machine differ" % (l, xy)))
                    break
    if isinstance(out.get("machine"), dict) and not bad:
        for x, y, inn, r, lm in out["machine_queries"]:
            cs = T.live.get((x, y))
            if inn != (1 if cs else 0) or (cs and (r != [cs["nc"], cs["sdram"], cs["sram"]] or lm != cs["links"])) \
                    or (not cs and lm != 0):
                bad.append(("machine-queries", "Machine answers (%r, %r, %r) for chip %r; the machine has %r"
                            % (inn, r, lm, (x, y), cs and [cs["nc"], cs["sdram"], cs["sram"], cs["links"]])))
                break
        if sorted(map(tuple, out["machine_iter"])) != sorted(T.live):
            bad.append(("machine-iter", "iterating the Machine does not give the responding chips"))
    # ---- core reservations
    cons = out.get("constraints")
    if cons is None or (cons and cons[0] == "err"):
        bad.append(("constraints-raise", "build_core_constraints raised %r" % (cons,)))
    else:
        for s, e, loc, ok in cons:
            if not ok:
                bad.append(("constraints-type", "a reservation is not a ReserveResourceConstraint of Cores"))
            if loc is not None and tuple(loc) not in T.live:
                bad.append(("constraints-location", "a reservation is placed on chip %r which does not respond" % (loc,)))
        for xy, cs in T.live.items():
            mine = [(s, e) for s, e, loc, ok in cons if loc is None or tuple(loc) == xy]
            covered = {}
            clash = None
            for k, (s, e) in enumerate(mine):
                for p in range(s, e):
                    if p in covered:
                        clash = (covered[p], (s, e))
                    covered[p] = (s, e)
            if clash:
                bad.append(("constraints-overlap", "chip %r: reservations %r and %r overlap" % (xy, clash[0], clash[1])))
                break
            if set(covered) != T.busy(cs):
                bad.append(("constraints-cover", "chip %r: reserved cores %r, cores that are not idle %r"
                            % (xy, sorted(covered), sorted(T.busy(cs)))))
                break
    tl = out.get("target_lengths")
    if tl is None or (tl and tl[0] == "err") or sorted(map(tuple, tl)) != sorted((x, y, cs["rtr"]) for (x, y), cs in T.live.items()):
        bad.append(("target-lengths", "routing table target lengths differ from the machine's free router blocks"))
    # ---- software version
    s = c["sver"]
    for (x, y, p), o in zip(c["sver_queries"], out["sver"]):
        chip = tuple(c["boot"]) if (x, y) == (255, 255) else (x, y)
        want = ["ok", list(chip), s["pcpu"], p, s["version"], s["buffer_size"], s["build_date"], s["name"], s["labels"]]
        if o != want:
            bad.append(("sver-" + s["encoding"], "software version of %r: reported %r, machine %r" % ((x, y, p), o, want)))
    # ---- per-core status, console buffers, router counters
    for pr, o in zip(c["probes"], out["probes"]):
        v = pr["vcpu"]
        nm = list(v["app_name"])
        while nm and nm[-1] == 0:
            nm.pop()
        sw = v["sw_ver"]
        want = ["ok", [v["r%d" % i] for i in range(8)], v["psr"], v["sp"], v["lr"], v["rt_code"], v["phys_cpu"],
                v["cpu_state"], v["mbox_ap_msg"], v["mbox_mp_msg"], v["mbox_ap_cmd"], v["mbox_mp_cmd"],
                v["sw_count"], v["sw_file"], v["sw_line"], v["time"], nm, v["iobuf"], v["app_id"],
                [(sw >> 16) & 255, (sw >> 8) & 255, sw & 255], [v["user%d" % i] for i in range(4)], True]
        if o["status"][:-1] != want[:-1]:
            diff = [i for i, (a, b) in enumerate(zip(o["status"], want[:-1])) if a != b] if len(o["status"]) == len(want) else "shape"
            bad.append(("processor-status", "status of core %r of chip %r differs from the machine's at positions %r: %r vs %r"
                        % (pr["p"], pr["chip"], diff, o["status"], want)))
        buf = []
        for b in pr["iobuf"]:
            buf += b["payload"][:b["length"]]
        if o["iobuf_bytes"] != ["ok", buf]:
            bad.append(("iobuf", "console buffer of core %r of chip %r: read %r, the machine holds %r"
                        % (pr["p"], pr["chip"], o["iobuf_bytes"], buf)))
        if all(k < 128 for k in buf) and o["iobuf"] != ["ok", buf]:
            bad.append(("iobuf-text", "get_iobuf of core %r of chip %r differs from the machine's text" % (pr["p"], pr["chip"])))
        if o["router"] != ["ok", pr["router"]]:
            bad.append(("router-counters", "router counters of chip %r: %r, machine %r" % (pr["chip"], o["router"], pr["router"])))
        cs = T.chips[tuple(pr["chip"])]
        if o.get("num_cores") != ["ok", cs["nc"]] or o.get("working_links") != ["ok", [l for l in range(6) if (cs["links"] >> l) & 1]] \
                or o.get("ip") != ["ok", [ord(ch) for ch in T.ip_text(cs)] if cs["eth_up"] else None]:
            bad.append(("chip-shortcuts", "get_num_working_cores / get_working_links / get_ip_address of chip %r differ from the machine"
                        % (pr["chip"],)))
    return bad


def oracle(c, out):
    """The oracle on what was probed and, when the description was also passed through a copying protocol (or rebuilt
    positionally), on the copy and on everything derived from the copy."""
    bad = oracle_one(c, out)
    if isinstance(out, dict) and "copy" in out and c["kind"] == "valid" and out["copy"].get("sysinfo", ["ok"])[0] != "ok" \
            and out.get("sysinfo", ["err"])[0] == "ok":
        return bad + [("copy-unreadable:via-" + c["copy"], "the description after %s can no longer be read back: %r (fields of "
                       "the wrong type / in the wrong place)" % (c["copy"], out["copy"]["sysinfo"]))]
    if isinstance(out, dict) and "copy" in out and c["kind"] == "valid":
        sub = oracle_one(dict(c, probes=[], sver_queries=[]), dict(out["copy"], sver=[], probes=[]))
        bad += [(key + ":via-" + c["copy"], "description after %s: %s" % (c["copy"], why)) for key, why in sub]
    return bad


# ------------------------------------------------------------------------------------------- Coq literals
def zl(l):
    return vlist(zlit(v) for v in l)


def zll(l):
    return vlist(zl(v) for v in l)


def zlll(l):
    return vlist(zll(v) for v in l)


def ul(l):
    """list of non-negative integers < 2^63 as primitive-integer literals (elaborated ~6x faster than Z literals)"""
    return "(U [%s]%%uint63)" % "; ".join("%d" % v for v in l)


def ull(ll):
    return "(UU [%s]%%uint63)" % "; ".join("[" + "; ".join("%d" % v for v in l) + "]" for l in ll)


def strip0(d):
    d = list(bytearray(d))
    while d and d[-1] == 0:
        d.pop()
    return d


def regions_lit(regs):
    # trailing zero bytes of a region are dropped: unmapped memory reads as zero anyway
    return "[%s]%%uint63" % "; ".join("RG %d [%s]" % (b, "; ".join("%d" % v for v in strip0(d))) for b, d in regs)


def flat_ci(r):
    nc, states, links, sdram, sram, rtr, eth_up, ip, ex, ey = r[:10]
    return [nc, len(states)] + states + [len(links)] + links + [sdram, sram, rtr, eth_up, len(ip)] + ip + [ex, ey]


def flat_machine(m):
    return [[[m["w"], m["h"]], m["res"]], m["exc"], m["dead_chips"], m["dead_links"]]


HASH_MOD = 2305843009213693951


def hl(l):
    h = 7
    for v in l:
        h = (h * 1000003 + v + 1) & HASH_MOD
    return h


def hll(ll):
    flat = []
    for l in ll:
        flat.append(len(l))
        flat.extend(l)
    return hl(flat)


def hlll(lll):
    return hl([hll(ll) for ll in lll])


def opt(x, f):
    return "None" if x is None else "(Some %s)" % f(x)


VCPU_PACKS = dict((n, ("16s", 16) if n == "app_name" else ("I", 4) if n == "__PAD" else
                   ({4: "I", 2: "H", 1: "B"}[sz], 1)) for n, sz, _ in VCPU_LAYOUT_FIELDS)
VCPU_ORDER = ["r%d" % i for i in range(8)] + ["psr", "sp", "lr", "rt_code", "phys_cpu", "cpu_state", "app_id", "mbox_ap_msg",
                                             "mbox_mp_msg", "mbox_ap_cmd", "mbox_mp_cmd", "sw_count", "sw_file", "sw_line",
                                             "time", "app_name", "iobuf", "sw_ver", "__PAD", "user0", "user1", "user2", "user3"]


def layout_lit(lay):
    """The controller's `structs` as the model's layout parameter."""
    if lay is None:
        return "packaged_layout"
    f = lambda pack, off: '("%s"%%string, %s, 1)' % (pack, zlit(off))
    fields = vlist('("%s"%%string, ("%s"%%string, %s, %s))' % (n, VCPU_PACKS[n][0], zlit(lay["vcpu"][n]), zlit(VCPU_PACKS[n][1]))
                   for n in VCPU_ORDER)
    return "(mkLayout %s %s %s %s %s %s %s)" % (zlit(lay["sv_base"]), f("H", lay["sv"]["p2p_dims"]), f("I", lay["sv"]["vcpu_base"]),
                                               f("I", lay["sv"]["iobuf_size"]), f("B", lay["sv"]["num_cpus"]),
                                               zlit(lay["vcpu_size"]), fields)


def case_exprs(c, out, sim, tag="k", known=None):
    # known: the SCP buffer size the controller has learnt in an earlier call of its history (None: fresh)
    """-> (component names, top-level definitions, Coq expression evaluating to the list of booleans).
    The large literals are top-level Definitions (elaborating them under a `let` is far slower)."""
    defs = []
    boot = tuple(c["boot"])
    machine = sim.SimMachine(c)
    comps = []
    mem = regions_lit(machine.regions(boot))
    infos = []
    for x, y, cs in c["chips"]:
        a = cs["answer"]
        if a == "ok" or (isinstance(a, list) and ((a[0] == "flaky" and a[1] < N_TRIES) or a[0] == "busy_for")):
            a1, a2, a3, data = machine.info_reply(cs)
            infos.append("IE %d %d %d %d %d [%s]" % (x, y, a1, a2, a3, "; ".join("%d" % v for v in bytearray(data))))
    b1, b2, b3, bdata = machine.sver_reply(boot, 0)
    defs.append("Definition M_%s : list (Z * list Z) := %s." % (tag, mem))
    defs.append("Definition I_%s : list (chip * reply) := [%s]%%uint63." % (tag, "; ".join(infos)))
    defs.append("Definition L_%s : layout := %s." % (tag, layout_lit(c.get("layout"))))
    defs.append("Definition R_%s := drop_state (ctl_system_info L_%s %s (mkReply %s %s %s %s) (mem_reader M_%s) (info_of I_%s))."
                % (tag, tag, "None" if known is None else "(Some %s)" % zlit(known),
                   zlit(b1), zlit(b2), zlit(b3), zl(list(bytearray(bdata))), tag, tag))
    head = ""
    si = out["sysinfo"]
    if si[0] != "ok":
        body = "[match R_%s with Ok _ => false | OutOfFuel => false | _ => true end]" % tag
        names = ["sysinfo:error"]
    else:
        parts, names = [], []

        def add(name, e):
            names.append(name)
            parts.append(e)
        add("sysinfo", "hash_ll (flat_sysinfo si) =? %s" % zlit(hll([[si[1], si[2]]] + [r[:2] + flat_ci(r[2:]) for r in si[3]])))
        add("chips", "hash_ll (flat_chips (map fst (si_chips si))) =? %s" % zlit(hll(out["si_chips"])))
        add("dead_chips", "hash_ll (flat_chips (si_dead_chips si)) =? %s" % zlit(hll(out["si_dead_chips"])))
        add("links", "hash_ll (flat_links (si_links si)) =? %s" % zlit(hll(out["si_links"])))
        add("dead_links", "hash_ll (flat_links (si_dead_links si)) =? %s" % zlit(hll(out["si_dead_links"])))
        add("cores", "hash_ll (flat_cores (si_cores si)) =? %s" % zlit(hll(out["si_cores"])))
        add("ethernet", "hash_ll (flat_eth (si_ethernet si)) =? %s" % zlit(hll([[x, y] + ip for x, y, ip in out["si_eth"]])))
        add("contains", "llz_eqb (contains_queries si %s) %s" % (zll(c["contains_queries"]), zll(out["si_contains"])))
        m = out["machine"]
        if isinstance(m, dict):
            add("machine", "hash_lll (flat_machine (build_machine si)) =? %s" % zlit(hlll(flat_machine(m))))
            add("machine_queries", "hash_ll (machine_queries (build_machine si) %s) =? %s" % ("(map (map Z.pred) %s)" % ull([[x + 1, y + 1] for x, y in c["mq"]]), zlit(hll(
                [[x, y, inn] + ([0] if r is None else [1] + r) + [lm] for x, y, inn, r, lm in out["machine_queries"]]))))
            if m["w"] * m["h"] <= 4096:       # the model's iteration is quadratic in the area
                add("machine_iter", "hash_ll (flat_chips (pm_iter (build_machine si))) =? %s" % zlit(hll(out["machine_iter"])))
        else:
            add("machine", "false")
        if isinstance(out.get("get_machine"), dict):
            add("get_machine", "match get_machine_L L_%s (mem_reader M_%s) (info_of I_%s) with Ok m => "
                "hash_lll (flat_machine m) =? %s | _ => false end" % (tag, tag, tag, zlit(hlll(flat_machine(out["get_machine"])))))
        elif "get_machine" in out:
            add("get_machine", "false")
        cons = out["constraints"]
        if cons and cons[0] == "err":
            add("constraints", "false")
        else:
            add("constraints", "llz_eqb (flat_constraints (build_core_constraints si)) %s" % zll(
                [[s, e] + ([0] if loc is None else [1] + loc) for s, e, loc, ok in cons]))
        tl = out["target_lengths"]
        add("target_lengths", "false" if (tl and tl[0] == "err") else
            "hash_ll (map (fun t => [fst (fst t); snd (fst t); snd t]) (target_lengths si)) =? %s" % zlit(hll(tl)))
        cp = out.get("copy")
        if isinstance(cp, dict):                 # copying a description is the identity in the model
            if cp.get("sysinfo", ["err"])[0] != "ok":
                add("copy:sysinfo", "false")
            else:
                csi = cp["sysinfo"]
                add("copy:sysinfo", "hash_ll (flat_sysinfo si) =? %s" % zlit(hll([[csi[1], csi[2]]] + [r[:2] + flat_ci(r[2:]) for r in csi[3]])))
                add("copy:ethernet", "hash_ll (flat_eth (si_ethernet si)) =? %s" % zlit(hll([[x, y] + ip for x, y, ip in cp["si_eth"]])))
                add("copy:machine", "false" if not isinstance(cp.get("machine"), dict) else
                    "hash_lll (flat_machine (build_machine si)) =? %s" % zlit(hlll(flat_machine(cp["machine"]))))
                cc = cp.get("constraints")
                add("copy:constraints", "false" if (cc is None or (cc and cc[0] == "err")) else
                    "llz_eqb (flat_constraints (build_core_constraints si)) %s" % zll(
                        [[s_, e_] + ([0] if loc is None else [1] + loc) for s_, e_, loc, ok in cc]))
        body = "match R_%s with Ok si => %s | _ => [false] end" % (tag, vlist(parts))
    exprs = ["(" + head + body + ")"]
    all_names = list(names)
    # software version
    for (x, y, p), o in zip(c["sver_queries"], out["sver"]):
        chip = boot if (x, y) == (255, 255) else (x, y)
        a1, a2, a3, data = machine.sver_reply(chip, p)
        rep = "(mkReply %s %s %s %s)" % (zlit(a1), zlit(a2), zlit(a3), zl(list(bytearray(data))))
        if o[0] == "ok":
            flat = [o[1] + [o[2], o[3]] + o[4] + [o[5], o[6]], o[7], o[8]]
            e = "match decode_sver %s with Ok v => llz_eqb (flat_core_info v) %s | _ => false end" % (rep, zll(flat))
        else:
            e = "match decode_sver %s with Ok _ => false | OutOfFuel => false | _ => true end" % rep
        exprs.append("[%s]" % e)
        all_names.append("sver(%d,%d,%d)" % (x, y, p))
    # probes
    for j, (pr, o) in enumerate(zip(c["probes"], out.get("probes", []))):
        memc = regions_lit(machine.regions(tuple(pr["chip"])))
        mcname = "MC_%s_%d" % (tag, j)
        p = pr["p"]
        parts = []

        def cmp(name, model, impl, eqb, lit):
            all_names.append("%s(%r,%d)" % (name, tuple(pr["chip"]), p))
            if impl[0] == "ok":
                parts.append("match %s with Ok v => %s v %s | _ => false end" % (model, eqb, lit(impl[1])))
            else:
                parts.append("match %s with Ok _ => false | OutOfFuel => false | _ => true end" % model)
        st = o["status"]
        if st[0] == "ok":
            flat = [st[1]] + [[v] for v in st[2:16]] + [st[16], [st[17]], [st[18]], st[19], st[20]]
            st = ["ok", flat]
        cmp("status", "processor_status_L L_%s (mem_reader MC) %s" % (tag, zlit(p)), st, "llz_eqb", zll)
        cmp("iobuf", "get_iobuf_bytes_L L_%s %d%%nat (mem_reader MC) %s" % (tag, len(pr["iobuf"]) + 2, zlit(p)),
            o["iobuf_bytes"], "(fun a b => hash_list a =? b)", lambda l: zlit(hl(l)))
        cmp("router", "router_diagnostics (mem_reader MC)", o["router"], "lz_eqb", zl)
        if o.get("num_cores", ["err"])[0] == "ok":
            cmp("num_cores", "num_working_cores_L L_%s (mem_reader MC)" % tag, o["num_cores"], "Z.eqb", zlit)
        defs.append("Definition %s : list (Z * list Z) := %s." % (mcname, memc))
        exprs.append(vlist(parts).replace("(mem_reader MC)", "(mem_reader %s)" % mcname))
    return all_names, "\n".join(defs), exprs        # each expression is evaluated by its own Eval (joining
    #                                                  them with ++ makes vm_compute an order of magnitude slower)


def coq_eval_cases(chk, triples, shard, timeout=2400, groups=None):
    """triples: [(names, defs, expr)] -> list of parsed values (one list of booleans per case), in the order of
    `triples` (or of the concatenation of `groups`, the explicit shards)."""
    import concurrent.futures
    shards = groups if groups is not None else [triples[i:i + shard] for i in range(0, len(triples), shard)]
    texts = [HEADER + "\n".join(d + "\n" + "\n".join("Eval vm_compute in (%s)." % e for e in es) for _, d, es in sh) + "\n"
             for sh in shards]
    with concurrent.futures.ThreadPoolExecutor(max_workers=min(16, os.cpu_count() or 4)) as ex:
        results = list(ex.map(lambda kt: chk.coqc_text("cases_%d" % kt[0], kt[1], timeout), enumerate(texts)))
    vals = []
    for k, (out, sh) in enumerate(zip(results, shards)):
        if "@@COQC-FAILED" in out:
            raise RuntimeError("model evaluation failed in shard %d: %s" % (k, out[-1500:]))
        vs = lib.split_evals(out)
        if len(vs) != sum(len(es) for _, _, es in sh):
            raise RuntimeError("model evaluation shard %d printed %d values for %d expressions: %s"
                               % (k, len(vs), sum(len(es) for _, _, es in sh), out[-800:]))
        pos = 0
        for _, _, es in sh:
            v = []
            for part in vs[pos:pos + len(es)]:
                v += lib.parse_term(part)
            pos += len(es)
            vals.append(v)
    return vals


def nontrivial(c, out):
    if c["kind"] != "valid" or not isinstance(out, dict) or out.get("sysinfo", ["err"])[0] != "ok":
        return False
    return len(out["sysinfo"][3]) >= 2


# ------------------------------------------------------------------------------------------- the check
HEADER = ("From Coq Require Import ZArith String List Bool Uint63. Import ListNotations. Open Scope Z_scope.\n"
          "Require Import Rig.Model.Base Rig.Generated.GenProbe Rig.Model.Probe.\n"
          "Definition U (l : list int) : list Z := map Uint63.to_Z l.\n"
          "Definition UU (l : list (list int)) : list (list Z) := map U l.\n"
          "Definition RG (b : int) (d : list int) : Z * list Z := (Uint63.to_Z b, U d).\n"
          "Definition IE (x y a b c : int) (d : list int) : chip * reply :=\n"
          "  ((Uint63.to_Z x, Uint63.to_Z y), mkReply (Uint63.to_Z a) (Uint63.to_Z b) (Uint63.to_Z c) (U d)).\n")


def process_batch(chk, sim, cases, state, built):
    nchunk = 25 if chk.tier == "quick" else 100
    chunks = [cases[i:i + nchunk] for i in range(0, len(cases), nchunk)]
    outs = [o for part in chk.impl_parallel("impl_c14.py", chunks, timeout=3000) for o in part]
    keep = [i for i, o in enumerate(outs) if o != ["skipped"]]
    cases, outs = [cases[i] for i in keep], [outs[i] for i in keep]
    # units: one machine state with what was observed on it; a history contributes one unit per state
    units = []            # (parent case, state, observation, position of the state in its history)
    for c, o in zip(cases, outs):
        chk.count("kind:" + c["kind"])
        chk.count("size:%s" % ("sliver" if c.get("sliver") else "%dx%d" % (min(c["dims"][0], 12) // 4 * 4, min(c["dims"][1], 12) // 4 * 4)))
        chk.count("sver:" + c["sver"]["encoding"])
        chk.count("description-copied:%s" % c.get("copy"))
        chk.count("sver-trailing-nuls:%s" % min(c["sver"].get("nuls", 1), 2))
        for pr in c["probes"]:
            for bi, b in enumerate(pr["iobuf"]):
                if 0 < b["length"] <= len(b["payload"]) and b["payload"][b["length"] - 1] == 0:
                    chk.count("iobuf-block-ending-in-nul:%s" % ("last" if bi == len(pr["iobuf"]) - 1 else "first" if bi == 0 else "middle"))
        chk.count("iobuf-blocks:%d" % max([len(p["iobuf"]) for p in c["probes"]] + [0]))
        for pr in c["probes"]:
            if pr["iobuf_size"] % 4 and sum(1 for b in pr["iobuf"] if b["length"] == pr["iobuf_size"]) >= 1 and len(pr["iobuf"]) >= 2:
                chk.count("iobuf-chain-with-full-block-of-odd-size")
        for x, y, cs in c["chips"]:
            chk.count("answer:" + (cs["answer"] if isinstance(cs["answer"], str) else cs["answer"][0]))
        if "stages" in c:
            chk.count("history-states:%d" % len(c["stages"]))
            if isinstance(o, dict):
                for k, (st, so) in enumerate(zip(c["stages"], o["stages"])):
                    units.append((c, st, so, k))
            else:
                units.append((c, c["stages"][0], o, 0))
            chk.note_case(c, isinstance(o, dict) and all(nontrivial(st, so) for st, so in zip(c["stages"], o["stages"])))
        else:
            units.append((c, c, o, 0))
            chk.note_case(c, nontrivial(c, o))
    for parent, c, o, k in units:
        if isinstance(o, dict):
            chk.count("outcome:" + o["sysinfo"][0])
            if isinstance(o.get("constraints"), list) and o["constraints"] and o["constraints"][0] != "err":
                chk.count("cases-with-global-reservation", 1 if any(q[2] is None for q in o["constraints"]) else 0)
                chk.count("cases-with-chip-reservation", 1 if any(q[2] is not None for q in o["constraints"]) else 0)
        for key, why in oracle(c, o):
            if parent["kind"] == "duo":
                key += ":several-controllers"
                why = ("controller %d of %d in one interpreter (struct layout %s), call %d of the history: %s"
                       % (parent["ctrl"][k] + 1, len(parent["ctrl_layouts"]),
                          "packaged" if c.get("layout") is None else "moved", k + 1, why))
            elif k:
                key += ":after-state-change"
                why = "same controller, machine state %d of its history: %s" % (k + 1, why)
            if key not in state["seen_keys"] or len(chk.failing) < 5:
                chk.fail_input("probe:" + key, why, dict(case=parent, state=k,
                                                         observed=o if len(json.dumps(o)) < 20000 else "(large)"))
            state["seen_keys"].add(key)
    if cases and state["sample"] is None:
        k = min(range(len(cases)), key=lambda i: abs(len(cases[i]["chips"]) - 6) + (0 if cases[i]["kind"] == "valid" else 100))
        state["sample"] = dict(case=cases[k], implementation=outs[k])
    # model: stateless, i.e. what a fresh controller must report on each state
    if chk.model_ok and built and not state["model_error"]:
        try:
            idx = [i for i, u in enumerate(units) if isinstance(u[2], dict)]
            # the model is given the controller's struct layout, the machine's memory as laid out, and what the
            # controller has learnt in the earlier calls of its history (the SCP buffer size)
            known = {}
            for i in idx:
                parent, st, so, k = units[i]
                who = parent.get("ctrl", [0] * (k + 1))[k] if "stages" in parent else 0
                earlier = [j for j in range(k) if parent.get("ctrl", [0] * k)[j] == who] if "stages" in parent else []
                known[i] = parent["stages"][earlier[0]]["sver"]["buffer_size"] if earlier else None
            named = [case_exprs(units[i][1], units[i][2], sim, "c%d" % i, known[i]) for i in idx]
            order = sorted(range(len(named)), key=lambda k: -len(named[k][1]))       # big cases first, spread over shards
            # longest-processing-time-first over as many shards as there are cores; the cost of a case is about
            # proportional to the size of its literals (plus the start-up of a coqc per shard)
            nshard = max(1, min(os.cpu_count() or 4, 16, len(named) // 4)) * (1 if chk.tier == "quick" else 2)
            buckets = [[] for _ in range(nshard)]
            load = [0] * nshard
            for k in order:
                b = load.index(min(load))
                buckets[b].append(k)
                load[b] += len(named[k][1]) + 3000
            flat_order = [k for b in buckets for k in b]
            got = coq_eval_cases(chk, None, None, groups=[[named[k] for k in b] for b in buckets if b])
            vals = [None] * len(named)
            for k, v in zip(flat_order, got):
                vals[k] = v
            for i, (names, _, _), v in zip(idx, named, vals):
                chk.traces_validated += 1
                state["ncmp"] += 1
                wrong = [n for n, b in zip(names, v) if b is not True] if len(v) == len(names) else ["shape:%d/%d" % (len(v), len(names))]
                if wrong:
                    state["nbad"] += 1
                    if state["nbad"] <= 3:
                        parent, c, o, k = units[i]
                        chk.disagree("model and implementation differ on %s (machine %r, kind %s, state %d of its history)"
                                     % (", ".join(wrong[:6]), c["dims"], parent["kind"], k + 1),
                                     dict(case=parent, state=k, observed=o if len(json.dumps(o)) < 20000 else "(large)"))
        except RuntimeError as e:
            state["model_error"] = str(e)


def run(chk, args):
    import importlib.util
    spec = importlib.util.spec_from_file_location("sim_machine_c14", os.path.join(lib.VERIF, "harness", "sim_machine_c14.py"))
    sim = importlib.util.module_from_spec(spec)
    spec.loader.exec_module(sim)
    chk.trusted += ["harness/sim_machine_c14.py: the simulated SpiNNaker machine (wire layout, SC&MP `info` / `sver` / `read` "
                    "replies, P2P table, sv / vcpu / IOBUF layouts written down independently of rig); its `info` replies and "
                    "memory regions are handed unchanged to the Gallina model",
                    "CPython dict iteration order (insertion order) is mirrored by association lists; sets are compared sorted",
                    "the host is little-endian (vcpu fields are unpacked with native single-item formats)"]
    chk.assumptions += ["a chip's `info` reply follows the documented SC&MP layout (arg1 = cores | links<<8 | router block<<14 | "
                        "eth<<25, arg2/arg3 = largest free SDRAM/SRAM block, data = 18 state bytes, eth_addr:u16, ip:4 bytes) and "
                        "all 18 state bytes are AppState values",
                        "a memory read returns the requested bytes (packetisation of reads is property C07); retransmission is C06: "
                        "a chip `responds` iff it answers within the controller's n_tries = 5 transmissions",
                        "software names / version strings / application names are ASCII",
                        "sver payloads are generated with 0, 1 and several NUL bytes after the last string in both encodings (SC&MP / "
                        "SARK are believed to send each string with exactly one terminating NUL; the other forms are covered because "
                        "the property quantifies over version strings in both encodings, not over one firmware build)",
                        "histories (one controller, successive machine states): the sver reply -- hence the SCP buffer size "
                        "the controller has learnt -- the boot chip and the P2P table stay the same across the states",
                        "IOBUF chains are acyclic (the code would loop on a cyclic chain: theorem C14_iobuf_cycle_diverges)",
                        "the P2P dimensions fit their 8-bit fields (width, height <= 255)"]
    chk.regenerate(UNITS)
    built = chk.prove()
    if args.replay:
        rp = json.load(open(args.replay))
        cases = [f["replay"]["case"] for f in rp.get("failures", []) if "case" in f.get("replay", {})]
        cases += [b["replay"]["case"] for b in rp.get("no_longer_checks", []) if "case" in b.get("replay", {})]
        batches = [cases]
    else:
        n = 300 if chk.tier == "quick" else 10000
        per = 300 if chk.tier == "quick" else 1000

        def stream():
            first = gen_exhaustive(chk.rng) if chk.tier == "thorough" else []
            corpus = os.path.join(lib.VERIF, "corpus", "C14.json")
            if os.path.exists(corpus):
                first = json.load(open(corpus)) + first
            for k in range(0, len(first), per):
                yield first[k:k + per]
            for k in range(0, n, per):
                yield [gen_duo(chk.rng, i, chk.tier) if i % 12 == 9 else
                       gen_history(chk.rng, i, chk.tier) if i % 6 == 3 else gen_case(chk.rng, i, chk.tier)
                       for i in range(k, min(n, k + per))]
        batches = stream()
    state = dict(seen_keys=set(), nbad=0, ncmp=0, model_error=None, sample=None, base=0)
    for cases in batches:
        process_batch(chk, sim, cases, state, built)
    if state["sample"]:
        chk.sample(state["sample"])
    if chk.model_ok and built:
        if state["model_error"]:
            chk.oblige("correspondence:model-evaluates", False, state["model_error"])
        elif not state["nbad"]:
            chk.oblige("correspondence:probe (%d machines: SystemInfo, its views, Machine and its answers, reservations, "
                       "table lengths, sver, status, IOBUF, router counters; exact equality)" % state["ncmp"], True)
    chk.coverage["rule"] = ("random machine states: P2P dimensions <= 12x12 (every 50th a 255xk / kx255 sliver, k <= 3), holes "
                            "(random / row / corner / many), boot chip anywhere, table slots outside the dimensions filled with "
                            "none / east / garbage, chips silent / refusing / flaky (answering on try 2..5 or never) / busy for 1-400 ms of virtual time, core counts "
                            "0..18 with a common value, core-state patterns fresh / shared-busy / shared+own / random / all busy / "
                            "all idle, link patterns all / periphery / random / none, free-memory figures with a common value and "
                            "32-bit extremes, router blocks 0..2047, both sver encodings (0 / 1 / several trailing NULs), 1-3 probed cores with IOBUF chains of 0-5 "
                            "blocks (text, random binary, valid bytes containing and ending in NUL bytes in first / middle / last blocks); every 8th machine malformed (correspondence only); every 6th case a history: ONE controller probing 2-3 "
                            "successive states of the same machine (different vcpu_base, iobuf_size, vcpu blocks, IOBUF chains, core counts, "
                            "states, links, memory, answering chips), each probe judged against the state current at that call; the description is also passed through copy / deepcopy / "
                            "pickle (two protocols) / positional reconstruction / _replace and the copy (with the Machine and reservations "
                            "built from it) judged by the same oracle; every 12th case several controllers in one interpreter, each "
                            "with its own struct layout (sv / vcpu fields moved, vcpu resized and permuted) and its own machine, A-B / B-A / "
                            "interleaved; thorough tier adds exhaustive sweeps (every table height "
                            "1..255, every link mask, every core count 0..31, every AppState in every core position, every router "
                            "block size); non-trivial = well-formed machine (every state of a history) on which "
                            "get_system_info reports >= 2 chips; distinct by hash of the whole machine state")
