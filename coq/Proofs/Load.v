(* C09: the fill identifier of _get_next_nn_id cycles through 1 .. 126; top-level statements assembled
   from Proofs/Load*.v. *)
From Coq Require Import ZArith List Bool Lia.
Require Import Rig.Generated.GenLoad Rig.Model.Base Rig.Model.Regions Rig.Spec.Regions Rig.Model.Load Rig.Spec.Load.
Require Import Rig.Proofs.LoadMachine Rig.Proofs.LoadCtrl Rig.Proofs.LoadFill Rig.Proofs.LoadLoop Rig.Proofs.LoadWitness.
Import ListNotations.
Open Scope Z_scope.

Ltac Zify.zify_post_hook ::= Z.to_euclidean_division_equations.

Lemma next_nn_id_closed : forall x, 1 <= x <= 126 -> next_nn_id x = x mod 126 + 1.
Proof. intros x Hx. unfold next_nn_id. destruct (x <? 126) eqn:E; lia. Qed.

Lemma nn_iter_closed : forall k v, 1 <= v <= 126 -> nn_iter k v = (v - 1 + Z.of_nat k) mod 126 + 1.
Proof.
  induction k as [|k IH]; intros v Hv.
  - cbn [nn_iter]. lia.
  - cbn [nn_iter]. rewrite IH by exact Hv. rewrite next_nn_id_closed by lia.
    rewrite Nat2Z.inj_succ. lia.
Qed.

(* the ids of successive fills: 1 .. 126 in turn, each sent doubled (2 .. 252, a byte), the same id only
   every 126 fills; a new controller starts with 1 *)
Theorem nn_id_cycle : forall v, 1 <= v <= 126 ->
  (forall k, 1 <= nn_iter k v <= 126 /\ 2 <= nn_id_wire (nn_iter k v) <= 252
             /\ nn_id_wire (nn_iter k v) mod 2 = 0)
  /\ (forall k, nn_iter k v = v <-> (Z.of_nat k) mod 126 = 0)
  /\ next_nn_id v <> v
  /\ next_nn_id nn_id_init = 1.
Proof.
  intros v Hv. split; [|split; [|split]].
  - intros k. rewrite nn_iter_closed by exact Hv. unfold nn_id_wire. lia.
  - intros k. rewrite nn_iter_closed by exact Hv. lia.
  - rewrite next_nn_id_closed by exact Hv. lia.
  - reflexivity.
Qed.

(* what one fill keeps *)
Lemma fill_one_keeps : forall c w aid wait data ts c1 w1,
  ctrl_wf c (w_m w) -> machine_wf (w_m w) -> binary_ok (m_buffer (w_m w)) data -> 0 <= aid < 256 ->
  fill_one c w aid (ff_flags wait) data ts = Ok (c1, w1) ->
  machine_wf (w_m w1) /\ ctrl_wf c1 (w_m w1) /\ same_static (w_m w) (w_m w1)
  /\ c_nn c1 = next_nn_id (c_nn c).
Proof.
  intros c w aid wait data ts c1 w1 Hc Hm Hbin Haid Hf.
  assert (Hfl : 0 <= ff_flags wait < 64) by (destruct wait; vm_compute; split; congruence).
  pose proof (fill_one_effect c w aid (ff_flags wait) data ts c1 w1 Hc Hm Hbin Haid Hfl Hf)
    as (E1 & E2 & E3 & E4 & E5 & E6).
  split; [|split; [|split; [exact E2|exact E5]]].
  - apply (machine_wf_kept (w_m w) (w_m w1) (ff_flags wait) aid Hm E2 E3 Haid).
    intros [[x y] p] s' Hs. rewrite E4 in Hs. destruct (core_at (w_m w) (x, y, p)) as [old|]; [|discriminate].
    cbn [option_map] in Hs. inversion Hs.
    destruct (negb (chip_mem (x, y) (hd [] (m_sched (w_m w)))) && requested (cores_of_targets ts) x y p);
      [right; exists data; reflexivity|left; reflexivity].
  - destruct E2 as (Sa & _). split; [rewrite E5; pose proof (next_nn_id_range (c_nn c) (proj1 Hc)); lia|].
    right. rewrite E6, Sa. reflexivity.
Qed.

Lemma bins_ok_nth : forall buffer bins b data,
  bins_ok buffer bins -> nth_error bins b = Some data -> binary_ok buffer data.
Proof.
  intros buffer bins b data H E. unfold bins_ok in H. rewrite Forall_forall in H. apply H.
  eapply nth_error_In. exact E.
Qed.

(* the controller's id after a flood fill of a whole map: one step per binary *)
Lemma flood_fill_aplx_nn : forall bins am aid wait c w c' w',
  ctrl_wf c (w_m w) -> machine_wf (w_m w) -> bins_ok (m_buffer (w_m w)) bins -> 0 <= aid < 256 ->
  flood_fill_aplx bins c w am aid wait = Ok (c', w') ->
  c_nn c' = nn_iter (length am) (c_nn c).
Proof.
  intros bins am. induction am as [|[b ts] r IH]; intros aid wait c w c' w' Hc Hm Hbins Haid H.
  - cbn [flood_fill_aplx] in H. inversion H; subst. reflexivity.
  - cbn [flood_fill_aplx] in H. destruct (nth_error bins (Z.to_nat b)) as [data|] eqn:Eb; [|discriminate].
    apply bind_ok in H. destruct H as [[c1 w1] [Hf H]]. cbn [fst snd] in H.
    pose proof (bins_ok_nth _ _ _ _ Hbins Eb) as Hbin.
    destruct (fill_one_keeps c w aid wait data ts c1 w1 Hc Hm Hbin Haid Hf) as (Hm1 & Hc1 & (Sa & _) & Hn).
    rewrite (IH aid wait c1 w1 c' w' Hc1 Hm1 ltac:(rewrite Sa; exact Hbins) Haid H). rewrite Hn.
    cbn [length]. clear. induction (length r) as [|n IHn]; [reflexivity|]. cbn [nn_iter] in *. rewrite IHn. reflexivity.
Qed.

(* ---------------------------------------------------------------- the packets of a whole flood fill *)
Lemma ffcs_of_parts : forall buffer base data ffs sels rd ds ffe,
  ff_parts buffer base data ffs sels rd ds ffe ->
  ffcs_of ([ffs] ++ sels ++ [rd] ++ ds ++ [ffe]) = sels.
Proof.
  intros buffer base data ffs sels rd ds ffe (P1 & P2 & P3 & P4 & _ & P6 & _).
  unfold ffcs_of. rewrite !filter_app.
  assert (H1 : filter is_ffcs_b [ffs] = []).
  { cbn [filter]. unfold is_ffcs_b. destruct P1 as [_ ->]. rewrite andb_false_r. reflexivity. }
  assert (H2 : filter is_ffcs_b sels = sels).
  { clear -P2. induction sels as [|q sels IH]; [reflexivity|]. inversion P2 as [|? ? [Hc Ho] Hr]; subst.
    cbn [filter]. unfold is_ffcs_b at 1. rewrite Hc, Ho, !Z.eqb_refl. cbn [andb]. rewrite IH by exact Hr. reflexivity. }
  assert (H3 : filter is_ffcs_b [rd] = []).
  { cbn [filter]. unfold is_ffcs_b. unfold is_read in P3. rewrite P3. reflexivity. }
  assert (H4 : forall pid block addr, blocks_ok buffer pid block addr ds -> filter is_ffcs_b ds = []).
  { clear. induction ds as [|q ds IH]; intros pid block addr H; [reflexivity|]. cbn [blocks_ok] in H.
    destruct H as (Hf & _ & _ & _ & _ & _ & Hr). cbn [filter]. unfold is_ffcs_b at 1. unfold is_ffd in Hf. rewrite Hf.
    cbn [Z.eqb Pos.eqb andb]. apply (IH _ _ _ Hr). }
  assert (H5 : filter is_ffcs_b [ffe] = []).
  { cbn [filter]. unfold is_ffcs_b. destruct P4 as [_ ->]. rewrite andb_false_r. reflexivity. }
  rewrite H1, H2, H3, (H4 _ _ _ P6), H5. cbn [app]. apply app_nil_r.
Qed.

Theorem flood_fill_aplx_fills : forall bins am aid wait c w c' w',
  ctrl_wf c (w_m w) -> machine_wf (w_m w) -> bins_ok (m_buffer (w_m w)) bins -> 0 <= aid < 256 ->
  flood_fill_aplx bins c w am aid wait = Ok (c', w') ->
  exists ps, sent w' = sent w ++ ps /\ fills_ok (m_buffer (w_m w)) (m_base (w_m w)) bins am ps.
Proof.
  intros bins am. induction am as [|[b ts] r IH]; intros aid wait c w c' w' Hc Hm Hbins Haid H.
  - cbn [flood_fill_aplx] in H. inversion H; subst. exists []. split; [rewrite app_nil_r; reflexivity|reflexivity].
  - cbn [flood_fill_aplx] in H. destruct (nth_error bins (Z.to_nat b)) as [data|] eqn:Eb; [|discriminate].
    apply bind_ok in H. destruct H as [[c1 w1] [Hf H]]. cbn [fst snd] in H.
    pose proof (bins_ok_nth _ _ _ _ Hbins Eb) as Hbin.
    destruct (fill_one_keeps c w aid wait data ts c1 w1 Hc Hm Hbin Haid Hf) as (Hm1 & Hc1 & (Sa & Sb & _) & _).
    destruct (fill_one_wellformed c w aid (ff_flags wait) data ts c1 w1 Hc Hm Hbin Hf)
      as (ffs & sels & rd & ds & ffe & Hsent & Hparts & Hsel & _).
    destruct (IH aid wait c1 w1 c' w' Hc1 Hm1 ltac:(rewrite Sa; exact Hbins) Haid H) as (rest & Hsent2 & Hrest).
    exists (pre_of c ++ ([ffs] ++ sels ++ [rd] ++ ds ++ [ffe]) ++ rest). split.
    + rewrite Hsent2, Hsent. rewrite <- !app_assoc. reflexivity.
    + cbn [fills_ok]. exists data, (pre_of c), ([ffs] ++ sels ++ [rd] ++ ds ++ [ffe]), rest.
      split; [exact Eb|]. split.
      { unfold pre_of. destruct (c_buffer c); [left; reflexivity|right; exists sver_pkt; split; reflexivity]. }
      split; [reflexivity|]. split; [exists ffs, sels, rd, ds, ffe; split; [reflexivity|exact Hparts]|].
      split; [intros x y p; rewrite (ffcs_of_parts _ _ _ _ _ _ _ _ Hparts); apply Hsel|].
      rewrite <- Sa, <- Sb. exact Hrest.
Qed.

(* ---------------------------------------------------------------- the two refuted regions *)
Lemma load_count_mode_refuted :
  exists bins c w am a c' w' atts b core,
    machine_wf (w_m w) /\ ctrl_wf c (w_m w) /\ map_wf am /\ bins_ok (m_buffer (w_m w)) bins
    /\ 0 <= a_app a < 256 /\ no_requested_waiting (w_m w) am /\ a_count a = true
    /\ load_application bins c w am a = Ok (c', w', Returned, atts)
    /\ In (b, core) (named am)
    /\ ~ holds bins (w_m w') (a_app a) (if a_wait a then STATE_WAIT else STATE_RUN) b core.
Proof.
  destruct count_mode_witness as (c' & w' & atts & Hrun & Hat & Hin).
  destruct count_mode_witness_guards as (G1 & G2 & G3 & G4 & G5 & G6 & _).
  exists ex_bins, ctrl_init, (mkWorld k3_machine []), k3_map, (default_args 30), c', w', atts, 1, (1, 0, 3).
  cbn [w_m]. repeat (split; [assumption || (cbn; lia)|]).
  intros [data [_ H]]. rewrite Hat in H. discriminate.
Qed.

Lemma load_requested_waiting_refuted :
  exists bins c w am a c' w' atts b core,
    machine_wf (w_m w) /\ ctrl_wf c (w_m w) /\ map_wf am /\ bins_ok (m_buffer (w_m w)) bins
    /\ 0 <= a_app a < 256 /\ a_count a = false
    /\ load_application bins c w am a = Ok (c', w', Returned, atts)
    /\ In (b, core) (named am)
    /\ ~ holds bins (w_m w') (a_app a) (if a_wait a then STATE_WAIT else STATE_RUN) b core.
Proof.
  destruct state_mode_witness as (c' & w' & atts & Hrun & Hat & Hin).
  destruct state_mode_witness_guards as (G1 & G2 & G3 & G4 & G5 & _).
  exists ex_bins, ctrl_init, (mkWorld stale_machine []), k3_map, (state_args 30), c', w', atts, 1, (1, 0, 3).
  cbn [w_m]. repeat (split; [assumption || (cbn; lia)|]).
  intros [data [Hb H]]. rewrite Hat in H. vm_compute in Hb. inversion Hb; subst data. discriminate.
Qed.

(* state mode: the guard about other cores is not needed *)
Corollary load_state_mode : forall bins c w am a c' w' out atts,
  machine_wf (w_m w) -> ctrl_wf c (w_m w) -> map_wf am -> bins_ok (m_buffer (w_m w)) bins ->
  0 <= a_app a < 256 -> no_requested_waiting (w_m w) am -> a_count a = false ->
  load_application bins c w am a = Ok (c', w', out, atts) ->
  match out with
  | Returned =>
      (forall b c0, In (b, c0) (named am) ->
         holds bins (w_m w') (a_app a) (if a_wait a then STATE_WAIT else STATE_RUN) b c0)
      /\ (forall c0, ~ In c0 (map snd (named am)) ->
            core_at (w_m w') c0 =
            option_map (fun s => if a_wait a then s else start_core 255 (a_app a) s) (core_at (w_m w) c0))
  | LoadingError unl =>
      incl (named unl) (named am)
      /\ (forall b c0, In (b, c0) (named am) ->
            (In (b, c0) (named unl) <-> ~ holds bins (w_m w') (a_app a) STATE_WAIT b c0))
      /\ (forall c0, ~ In c0 (map snd (named am)) -> core_at (w_m w') c0 = core_at (w_m w) c0)
  end
  /\ Z.of_nat (length atts) <= Z.max 0 (a_tries a + 1)
  /\ Forall (att_ok bins (a_app a) am) atts.
Proof.
  intros bins c w am a c' w' out atts Hwf Hc Hmap Hbins Haid Hreq Hcnt H.
  apply (load_application_spec bins c w am a c' w' out atts Hwf Hc Hmap Hbins Haid Hreq); [|exact H].
  rewrite Hcnt. discriminate.
Qed.
