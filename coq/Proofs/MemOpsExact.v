(* C07: exactness of chunked reads and writes for every execution / callback order.

   Reads: the callbacks may run in any order and more than once; every splice puts the right bytes at its
   own slice and touches nothing else, so once every chunk has been seen the buffer is the memory range.
   Writes: the machine may execute the chunk commands in any order and more than once; every command
   stores bytes of the one data string at the addresses that string assigns to them, so once every chunk
   has been executed the memory is the old memory with exactly that range replaced. *)
From Coq Require Import ZArith List Bool Lia.
Require Import Rig.Generated.GenMemOps Rig.Generated.GenSCP Rig.Model.Base Rig.Model.Machine Rig.Model.MemOps
  Rig.Spec.MemOps Rig.Proofs.MemOpsArith Rig.Proofs.MemOps Rig.Proofs.MemOpsChunks.
Import ListNotations.
Open Scope Z_scope.

(* ------------------------------------------------------------------ reads never change the machine *)
Lemma exec_read_pure : forall buffer nbr M r, is_read_cmd (rq_cmd r) -> fst (exec buffer nbr M r) = M.
Proof.
  intros buffer nbr M r H. unfold exec. destruct (rq_cmd r) as [a n t | a n t d | a w s | a n l | a n l d];
    cbn [is_read_cmd] in H; try contradiction.
  - destruct (unit_of t); [destruct (n >? buffer)|]; reflexivity.
  - destruct (n >? buffer); reflexivity.
Qed.

Lemma exec_all_reads : forall buffer nbr rs M,
  Forall (fun r => is_read_cmd (rq_cmd r)) rs -> exec_all buffer nbr M rs = M.
Proof.
  induction rs as [|r rs IH]; intros M H; cbn [exec_all]; [reflexivity|].
  inversion H as [|? ? Hr Hrs]; subst. rewrite exec_read_pure by assumption. apply IH. assumption.
Qed.

(* ------------------------------------------------------------------ read_run under any order *)
Definition req_ok (E : env) (c : chip) (core : Z) (r : request) : Prop :=
  cmd_within (e_buffer E) (rq_cmd r) /\ cmd_aligned (rq_cmd r).

Definition rgood (E : env) (M : machine) (c : chip) (core address n : Z) (k : rchunk) : Prop :=
  0 <= rk_lo k <= rk_hi k /\ rk_hi k <= n /\
  exists r, issue E M c core (rk_call k) =
              Ok (M, r, mem_range (M c) (address + rk_lo k) (rk_hi k - rk_lo k)) /\
            req_ok E c core r /\ is_read_cmd (rq_cmd r) /\ rq_chip r = c /\ rq_core r = core.

Lemma read_run_inv : forall E M c core address n order (P : Z -> Prop) buf,
  zlen buf = n ->
  (forall k, In k order -> rgood E M c core address n k) ->
  (forall i, 0 <= i < n -> P i -> nth (Z.to_nat i) buf 0 = M c (address + i)) ->
  exists tr out, read_run E M c core order buf = Ok (tr, out) /\ zlen out = n /\
    (forall i, 0 <= i < n -> (P i \/ exists k, In k order /\ rk_lo k <= i < rk_hi k) ->
               nth (Z.to_nat i) out 0 = M c (address + i)) /\
    Forall (fun r => req_ok E c core r /\ is_read_cmd (rq_cmd r) /\ rq_chip r = c /\ rq_core r = core) tr.
Proof.
  intros E M c core address n order. induction order as [|k rest IH]; intros P buf Hlen Hgood Hinv.
  - exists [], buf. cbn [read_run]. split; [reflexivity|]. split; [assumption|]. split; [|constructor].
    intros i Hi [HP | (k & Hk & _)]; [auto | contradiction].
  - cbn [read_run].
    destruct (Hgood k (or_introl eq_refl)) as (Hlo & Hhi & r & Hiss & Hreq).
    rewrite Hiss. cbn [bind].
    destruct (splice_ok buf (rk_lo k) (rk_hi k) (mem_range (M c) (address + rk_lo k) (rk_hi k - rk_lo k)))
      as (buf' & Hsp & Hlen' & Hnth); try lia.
    { rewrite zlen_mem_range; lia. }
    rewrite Hsp. cbn [bind].
    destruct (IH (fun i => P i \/ rk_lo k <= i < rk_hi k) buf') as (tr & out & Hrun & Hlo' & Hout & Htr).
    + lia.
    + intros k' Hk'. apply Hgood. right. assumption.
    + intros i Hi HP. rewrite Hnth by lia.
      destruct (rk_lo k <=? i) eqn:E1; destruct (i <? rk_hi k) eqn:E2; cbn [andb];
        try apply Z.leb_le in E1; try apply Z.leb_gt in E1; try apply Z.ltb_lt in E2; try apply Z.ltb_ge in E2.
      * rewrite mem_range_nth by lia. f_equal. lia.
      * apply Hinv; [lia|]. destruct HP as [HP | HP]; [assumption | lia].
      * apply Hinv; [lia|]. destruct HP as [HP | HP]; [assumption | lia].
      * apply Hinv; [lia|]. destruct HP as [HP | HP]; [assumption | lia].
    + rewrite Hrun. cbn [bind]. exists (r :: tr), out. split; [reflexivity|]. split; [assumption|]. split.
      * intros i Hi [HP | (k' & [Hk' | Hk'] & Hr)].
        -- apply Hout; [assumption|]. left. left. assumption.
        -- subst k'. apply Hout; [assumption|]. left. right. assumption.
        -- apply Hout; [assumption|]. right. exists k'. split; assumption.
      * constructor; assumption.
Qed.

(* every chunk of a tiling is a well-formed read command *)
Lemma read_tiles_rgood : forall cs buffer nbr M c core address length k,
  0 <= address -> address + length <= 2 ^ 32 -> 1 <= buffer < 2 ^ 32 ->
  read_tiles cs address buffer 0 length -> In k cs ->
  rgood (mk_env buffer nbr) M c core address length k.
Proof.
  intros cs buffer nbr M c core address length k Ha Htop Hb Ht Hin.
  destruct (read_tiles_each _ _ _ _ _ _ Ht Hin) as (Hlo & Hhi & Hsz & Hc & Ha1 & Ha2 & Hd & u & Hu & Hma & Hmn).
  unfold rgood. split; [lia|]. split; [lia|].
  eexists. split.
  - rewrite <- Ha1, <- Ha2. apply (issue_read _ _ _ _ _ u); try assumption.
    + rewrite Ha1. lia.
    + rewrite Ha2. cbn [mk_env e_buffer]. lia.
    + rewrite Ha2. lia.
    + rewrite Ha1. assumption.
    + rewrite Ha2. assumption.
    + cbn [mk_env e_rl]. apply receive_fits; [lia | rewrite Ha2; lia].
  - cbn [rq_cmd rq_chip rq_core]. unfold req_ok. cbn [rq_cmd mk_env e_buffer].
    split; [split | cbn [is_read_cmd]; repeat split].
    + unfold cmd_within, cmd_len. rewrite Ha2. lia.
    + cbn [cmd_aligned]. apply (dtype_ok_cmd _ _ _ u); [assumption | rewrite Ha1 | rewrite Ha2]; assumption.
Qed.

Lemma range_ext : forall l m a n, zlen l = n -> 0 <= n ->
  (forall i, 0 <= i < n -> nth (Z.to_nat i) l 0 = m (a + i)) -> l = mem_range m a n.
Proof.
  intros l m a n Hl Hn H. apply nth_ext with (d := 0) (d' := 0).
  - rewrite mem_range_length. unfold zlen in Hl. lia.
  - intros i Hi. replace i with (Z.to_nat (Z.of_nat i)) by lia.
    rewrite H by (unfold zlen in Hl; lia). rewrite mem_range_nth by (unfold zlen in Hl; lia). reflexivity.
Qed.

Lemma read_run_exact : forall buffer nbr M c core address length cs order,
  0 <= address -> 0 <= length -> address + length <= 2 ^ 32 -> 1 <= buffer < 2 ^ 32 ->
  read_tiles cs address buffer 0 length -> covers cs order ->
  exists tr, read_run (mk_env buffer nbr) M c core order (repeat 0 (Z.to_nat length)) =
               Ok (tr, mem_range (M c) address length) /\
             trace_ok buffer tr /\ Forall (fun r => is_read_cmd (rq_cmd r)) tr /\
             Forall (fun r => rq_chip r = c /\ rq_core r = core) tr.
Proof.
  intros buffer nbr M c core address length cs order Ha Hl Htop Hb Ht [Hsub Hsup].
  destruct (read_run_inv (mk_env buffer nbr) M c core address length order (fun _ => False)
              (repeat 0 (Z.to_nat length))) as (tr & out & Hrun & Hlen & Hout & Htr).
  - rewrite zlen_repeat. lia.
  - intros k Hk. apply (read_tiles_rgood cs); try assumption. apply Hsub. assumption.
  - intros i _ [].
  - exists tr. split; [|split; [|split]].
    + rewrite Hrun. f_equal. f_equal. apply range_ext; try assumption.
      intros i Hi. apply Hout; [assumption|]. right.
      destruct (read_tiles_cover _ _ _ _ _ i Ht Hi) as (k & Hk & Hr). exists k. split; [apply Hsup; assumption | assumption].
    + unfold trace_ok. eapply Forall_impl; [|exact Htr]. intros r (Hr & _). exact Hr.
    + eapply Forall_impl; [|exact Htr]. intros r (_ & Hr & _). exact Hr.
    + eapply Forall_impl; [|exact Htr]. intros r (_ & _ & Hr). exact Hr.
Qed.

(* ------------------------------------------------------------------ stores under any order *)
Definition inr (k : call) (x : Z) : bool := (c_arg1 k <=? x) && (x <? c_arg1 k + zlen (c_data k)).
Definition coveredb (order : list (Z * call)) (x : Z) : bool := existsb (fun ck => inr (snd ck) x) order.

(* a command of the burst stores its own data (bytes of the one string [newval]) at chip tc *)
Definition wgood (E : env) (c tc : chip) (newval : Z -> Z) (ck : Z * call) : Prop :=
  (forall j, 0 <= j < zlen (c_data (snd ck)) ->
             nth (Z.to_nat j) (c_data (snd ck)) 0 = newval (c_arg1 (snd ck) + j)) /\
  forall M, exists M' r, issue E M c (fst ck) (snd ck) = Ok (M', r, []) /\
                         req_ok E c (fst ck) r /\ rq_chip r = c /\
                         stored_at M M' tc (c_arg1 (snd ck)) (c_data (snd ck)).

Lemma corecall_run_writes : forall E c tc newval order M,
  (forall ck, In ck order -> wgood E c tc newval ck) ->
  exists tr M', corecall_run E M c order = Ok (tr, M') /\
    Forall (fun r => req_ok E c 0 r /\ rq_chip r = c) tr /\
    forall c' x, M' c' x = if chip_eqb c' tc && coveredb order x then newval x else M c' x.
Proof.
  intros E c tc newval order. induction order as [|[core k] rest IH]; intros M Hgood.
  - exists [], M. cbn [corecall_run]. split; [reflexivity|]. split; [constructor|].
    intros c' x. cbn [coveredb existsb]. rewrite andb_false_r. reflexivity.
  - cbn [corecall_run].
    destruct (Hgood (core, k) (or_introl eq_refl)) as (Hval & Hiss).
    destruct (Hiss M) as (M1 & r & Hi & Hreq & Hchip & Hst). cbn [fst snd] in *.
    rewrite Hi. cbn [bind].
    destruct (IH M1) as (tr & M' & Hrun & Htr & HM').
    { intros ck Hck. apply Hgood. right. assumption. }
    rewrite Hrun. cbn [bind]. exists (r :: tr), M'. split; [reflexivity|]. split.
    + constructor; [|assumption]. split; [|assumption]. destruct Hreq as [H1 H2]. split; assumption.
    + intros c' x. rewrite HM'. rewrite Hst. cbn [coveredb existsb snd]. fold (coveredb rest x).
      destruct (chip_eqb c' tc); cbn [andb]; [|reflexivity].
      destruct (coveredb rest x); [rewrite orb_true_r; reflexivity|]. rewrite orb_false_r.
      fold (inr k x). destruct (inr k x) eqn:Ein; [|reflexivity].
      unfold inr in Ein. apply andb_true_iff in Ein. destruct Ein as [E1 E2].
      apply Z.leb_le in E1. apply Z.ltb_lt in E2.
      rewrite Hval by lia. f_equal. lia.
Qed.

Lemma call_run_corecall : forall E c core order M,
  call_run E M c core order = corecall_run E M c (map (pair core) order).
Proof.
  intros E c core order. induction order as [|k rest IH]; intros M; cbn [call_run corecall_run map]; [reflexivity|].
  destruct (issue E M c core k) as [[[M' r] d] | | |]; cbn [bind]; try reflexivity.
  rewrite IH. reflexivity.
Qed.

(* pointwise description -> the property's statement *)
Lemma stored_exactly_of_pointwise : forall (M M' : machine) tc a data (cov : Z -> bool),
  (forall x, cov x = true <-> a <= x < a + zlen data) ->
  (forall c' x, M' c' x = if chip_eqb c' tc && cov x then nth (Z.to_nat (x - a)) data 0 else M c' x) ->
  stored_exactly M M' tc a data.
Proof.
  intros M M' tc a data cov Hcov HM. split.
  - intros i Hi. rewrite HM. rewrite chip_eqb_refl. cbn [andb].
    destruct (cov (a + i)) eqn:E.
    + f_equal. f_equal. lia.
    + assert (cov (a + i) = true) by (apply Hcov; lia). congruence.
  - intros c' x Hn. rewrite HM.
    destruct (chip_eqb c' tc) eqn:Ec; cbn [andb]; [|reflexivity].
    destruct (cov x) eqn:Ex; [|reflexivity].
    apply chip_eqb_eq in Ec. apply Hcov in Ex. exfalso. apply Hn. split; assumption.
Qed.

(* every chunk of a write tiling is a well-formed write command storing its part of the data *)
Lemma write_tiles_wgood : forall cs buffer nbr c core address data k,
  0 <= address -> address + zlen data <= 2 ^ 32 -> 1 <= buffer < 2 ^ 32 ->
  write_tiles cs address buffer data 0 -> In k cs ->
  wgood (mk_env buffer nbr) c c (fun x => nth (Z.to_nat (x - address)) data 0) (core, k).
Proof.
  intros cs buffer nbr c core address data k Ha Htop Hb Ht Hin.
  destruct (write_tiles_each _ _ _ _ _ _ Ht ltac:(lia) Hin)
    as (pos & Hpos & Hsz & Hend & Hc & Ha1 & Hd & u & Hu & Hma & Hmn).
  assert (Hlen : zlen (c_data k) = c_arg2 k).
  { rewrite Hd. apply firstn_skipn_length; lia. }
  unfold wgood. cbn [fst snd]. split.
  - intros j Hj. rewrite Hd. rewrite firstn_skipn_nth by lia. f_equal. rewrite Ha1. lia.
  - intros M.
    assert (H1 : 0 <= c_arg1 k < 2 ^ 32) by lia.
    assert (H2 : c_arg2 k = zlen (c_data k)) by lia.
    assert (H3 : c_arg2 k <= e_buffer (mk_env buffer nbr)) by (cbn [mk_env e_buffer]; lia).
    assert (H4 : c_arg2 k < 2 ^ 32) by lia.
    assert (H5 : c_arg1 k mod u = 0) by (rewrite Ha1; assumption).
    destruct (issue_write (mk_env buffer nbr) M c core k u Hc Hu H1 H2 H3 H4 H5 Hmn) as (M' & Hi & Hst).
    + exists M'. eexists. split; [exact Hi|]. cbn [rq_cmd rq_chip]. split; [|split; [reflexivity | exact Hst]].
      unfold req_ok. cbn [rq_cmd mk_env e_buffer]. split.
      * unfold cmd_within, cmd_len. rewrite Hlen. lia.
      * cbn [cmd_aligned]. rewrite Ha1. apply (dtype_ok_cmd _ _ _ u); assumption.
Qed.

Lemma coveredb_write_tiles : forall cs buffer address data core order x,
  write_tiles cs address buffer data 0 -> covers cs order ->
  (coveredb (map (pair core) order) x = true <-> address <= x < address + zlen data).
Proof.
  intros cs buffer address data core order x Ht [Hsub Hsup]. unfold coveredb. rewrite existsb_exists. split.
  - intros ([core' k] & Hin & Hr). apply in_map_iff in Hin. destruct Hin as (k' & Hk' & Hin). inversion Hk'; subst.
    cbn [snd] in Hr. unfold inr in Hr. apply andb_true_iff in Hr. destruct Hr as [E1 E2].
    apply Z.leb_le in E1. apply Z.ltb_lt in E2.
    destruct (write_tiles_each _ _ _ _ _ _ Ht ltac:(lia) (Hsub _ Hin))
      as (pos & Hpos & Hsz & Hend & Hc & Ha1 & Hd & _).
    assert (Hlen : zlen (c_data k) = c_arg2 k) by (rewrite Hd; apply firstn_skipn_length; lia).
    lia.
  - intros Hx. destruct (write_tiles_cover _ _ _ _ _ (x - address) Ht ltac:(lia)) as (k & Hin & Hk).
    exists (core, k). split; [apply in_map; apply Hsup; assumption|].
    destruct (write_tiles_each _ _ _ _ _ _ Ht ltac:(lia) Hin) as (pos & Hpos & Hsz & Hend & Hc & Ha1 & Hd & _).
    assert (Hlen : zlen (c_data k) = c_arg2 k) by (rewrite Hd; apply firstn_skipn_length; lia).
    cbn [snd]. unfold inr. apply andb_true_iff. split; [apply Z.leb_le | apply Z.ltb_lt]; lia.
Qed.

Lemma call_run_exact : forall buffer nbr M c core address data cs order,
  0 <= address -> address + zlen data <= 2 ^ 32 -> 1 <= buffer < 2 ^ 32 ->
  write_tiles cs address buffer data 0 -> covers cs order ->
  exists tr M', call_run (mk_env buffer nbr) M c core order = Ok (tr, M') /\
                stored_exactly M M' c address data /\ trace_ok buffer tr /\
                Forall (fun r => rq_chip r = c) tr.
Proof.
  intros buffer nbr M c core address data cs order Ha Htop Hb Ht Hcov.
  rewrite call_run_corecall.
  destruct (corecall_run_writes (mk_env buffer nbr) c c (fun x => nth (Z.to_nat (x - address)) data 0)
              (map (pair core) order) M) as (tr & M' & Hrun & Htr & HM').
  - intros ck Hck. apply in_map_iff in Hck. destruct Hck as (k & <- & Hk).
    apply (write_tiles_wgood cs); try assumption. apply (proj1 Hcov). assumption.
  - exists tr, M'. split; [assumption|]. split; [|split].
    + apply (stored_exactly_of_pointwise M M' c address data (coveredb (map (pair core) order))).
      * intros x. apply (coveredb_write_tiles cs buffer); assumption.
      * exact HM'.
    + unfold trace_ok. eapply Forall_impl; [|exact Htr]. intros r ((H1 & H2) & _). split; assumption.
    + eapply Forall_impl; [|exact Htr]. intros r (_ & H). exact H.
Qed.
