(* Executable model of rig.machine_control.packets: SDPPacket / SCPPacket .bytestring, .packed_data,
   .from_bytestring and _unpack_sdp_into_packet.  Definitions only; proofs are in Proofs/Packet*.v.

   Byte strings are lists of Z (a byte is 0 <= b < 256; the predicate is in Spec/Packet.v).
   `struct.pack` / `struct.unpack_from` are modelled generically for little-endian standard-size formats
   ('<' then items  [count]x | [count]B | [count]H | [count]I), driven by the format STRINGS that
   Generated/GenPackets.v takes from the source on every run.  The header value expressions (masks,
   shifts, order of the coordinates), the decode expressions, the slice offsets and the guards/steps of
   the unrolled argument loop are the generated definitions, not written here.

   Python exceptions: struct.error (value out of the width of its format code, buffer too short) is
   [OtherError]; nothing in this module raises a documented rig exception.  Field values are Python
   ints (a field left at its default None makes `None & 7` / struct.pack raise: outside the model). *)
From Coq Require Import ZArith List Bool String Ascii.
Require Import Rig.Generated.GenPackets Rig.Model.Base.
Import ListNotations.
Open Scope Z_scope.

(* ------------------------------------------------------------------ struct format strings *)
Inductive fitem :=
| FPad                 (* x : one pad byte, consumes no argument *)
| FUInt (n : nat).     (* unsigned integer of n bytes: B = 1, H = 2, I = 4 *)

Definition digit_of (c : ascii) : option nat :=
  let n := nat_of_ascii c in
  if (Nat.leb 48 n && Nat.leb n 57)%bool then Some (n - 48)%nat else None.

Definition code_of (c : ascii) : option fitem :=
  if Ascii.eqb c "x" then Some FPad
  else if Ascii.eqb c "B" then Some (FUInt 1)
  else if Ascii.eqb c "H" then Some (FUInt 2)
  else if Ascii.eqb c "I" then Some (FUInt 4)
  else None.

(* [count]: the repeat count read so far (None: no digit yet) *)
Fixpoint parse_items (s : string) (count : option nat) : option (list fitem) :=
  match s with
  | EmptyString => match count with None => Some [] | Some _ => None end
  | String c r =>
      match digit_of c with
      | Some d => parse_items r (Some (10 * (match count with None => 0 | Some k => k end) + d)%nat)
      | None =>
          match code_of c with
          | Some it =>
              match parse_items r None with
              | Some its => Some (repeat it (match count with None => 1%nat | Some k => k end) ++ its)
              | None => None
              end
          | None => None
          end
      end
  end.

(* only '<' (little-endian, standard sizes, no alignment) is understood; any other format is outside the
   model and yields None, which the packers turn into OtherError (the theorems show that the generated
   formats parse) *)
Definition parse_fmt (s : string) : option (list fitem) :=
  match s with
  | String c r => if Ascii.eqb c "<" then parse_items r None else None
  | EmptyString => None
  end.

Definition item_size (it : fitem) : nat := match it with FPad => 1%nat | FUInt n => n end.
Definition calcsize (its : list fitem) : nat := fold_right (fun it s => (item_size it + s)%nat) 0%nat its.

(* ------------------------------------------------------------------ little-endian integers *)
Fixpoint le_bytes (n : nat) (v : Z) : list Z :=
  match n with
  | O => []
  | S m => v mod 256 :: le_bytes m (v / 256)
  end.

Fixpoint le_value (bs : list Z) : Z :=
  match bs with
  | [] => 0
  | b :: r => b + 256 * le_value r
  end.

(* ------------------------------------------------------------------ struct.pack *)
(* struct.error when the number of arguments differs from the number of non-pad items, or an argument
   is outside 0 <= a < 256^n *)
Fixpoint pack_items (its : list fitem) (args : list Z) : result (list Z) :=
  match its with
  | [] => match args with [] => Ok [] | _ :: _ => OtherError end
  | FPad :: r => bind (pack_items r args) (fun bs => Ok (0 :: bs))
  | FUInt n :: r =>
      match args with
      | [] => OtherError
      | a :: args' =>
          if (0 <=? a) && (a <? 256 ^ Z.of_nat n)
          then bind (pack_items r args') (fun bs => Ok (le_bytes n a ++ bs))
          else OtherError
      end
  end.

Definition struct_pack (fmt : string) (args : list Z) : result (list Z) :=
  match parse_fmt fmt with
  | Some its => pack_items its args
  | None => OtherError
  end.

(* ------------------------------------------------------------------ struct.unpack_from *)
Fixpoint unpack_items (its : list fitem) (bs : list Z) : list Z :=
  match its with
  | [] => []
  | FPad :: r => unpack_items r (skipn 1 bs)
  | FUInt n :: r => le_value (firstn n bs) :: unpack_items r (skipn n bs)
  end.

(* struct.error unless the buffer holds calcsize(fmt) bytes from the offset on.  (A negative offset counts
   from the end in Python; the modelled code only passes 0, 4, 8 -- modelled as an error.) *)
Definition struct_unpack_from (fmt : string) (buf : list Z) (offset : Z) : result (list Z) :=
  match parse_fmt fmt with
  | Some its =>
      if (0 <=? offset) && (Z.of_nat (calcsize its) <=? Z.of_nat (List.length buf) - offset)
      then Ok (unpack_items its (skipn (Z.to_nat offset) buf))
      else OtherError
  | None => OtherError
  end.

(* `x, = struct.unpack_from(...)` *)
Definition unpack_one (fmt : string) (buf : list Z) (offset : Z) : result Z :=
  bind (struct_unpack_from fmt buf offset)
       (fun vs => match vs with [v] => Ok v | _ => OtherError end).

(* ------------------------------------------------------------------ the packets *)
Record sdp := {
  reply_expected : bool;
  tag : Z; dest_port : Z; dest_cpu : Z; src_port : Z; src_cpu : Z;
  dest_x : Z; dest_y : Z; src_x : Z; src_y : Z;
  data : list Z }.

(* an SCPPacket is an SDPPacket with five more slots; an argument that is None is absent *)
Record scp := {
  sdp_part : sdp;
  cmd_rc : Z; seq : Z;
  arg1 : option Z; arg2 : option Z; arg3 : option Z }.

Definition with_data (p : sdp) (d : list Z) : sdp :=
  {| reply_expected := reply_expected p; tag := tag p; dest_port := dest_port p; dest_cpu := dest_cpu p;
     src_port := src_port p; src_cpu := src_cpu p; dest_x := dest_x p; dest_y := dest_y p;
     src_x := src_x p; src_y := src_y p; data := d |}.

(* ------------------------------------------------------------------ encoding *)
(* the struct.pack call of SDPPacket.bytestring *)
Definition sdp_header (p : sdp) : result (list Z) :=
  struct_pack sdp_header_fmt
    (sdp_header_values (reply_expected p) (tag p) (dest_port p) (dest_cpu p) (src_port p) (src_cpu p)
                       (dest_x p) (dest_y p) (src_x p) (src_y p)).

(* SDPPacket.bytestring with SDPPacket.packed_data = self.data *)
Definition sdp_bytes (p : sdp) : result (list Z) :=
  bind (sdp_header p) (fun h => Ok (h ++ data p)).

Definition pack_opt (fmt : string) (a : option Z) : result (list Z) :=
  match a with
  | None => Ok []                      (* `if self.argN is not None` not taken *)
  | Some v => struct_pack fmt [v]
  end.

(* SCPPacket.packed_data *)
Definition scp_packed_data (q : scp) : result (list Z) :=
  bind (struct_pack scp_header_fmt [cmd_rc q; seq q]) (fun h =>
  bind (pack_opt scp_pack_arg1_fmt (arg1 q)) (fun a1 =>
  bind (pack_opt scp_pack_arg2_fmt (arg2 q)) (fun a2 =>
  bind (pack_opt scp_pack_arg3_fmt (arg3 q)) (fun a3 =>
  Ok ((((h ++ a1) ++ a2) ++ a3) ++ data (sdp_part q)))))).

(* SCPPacket.bytestring (inherited): header, then the overriding packed_data *)
Definition scp_bytes (q : scp) : result (list Z) :=
  bind (sdp_header (sdp_part q)) (fun h =>
  bind (scp_packed_data q) (fun pd => Ok (h ++ pd))).

(* ------------------------------------------------------------------ decoding *)
(* _unpack_sdp_into_packet applied to a fresh packet (SDPPacket.from_bytestring) *)
Definition sdp_of_bytes (bs : list Z) : result sdp :=
  let d := skipn (Z.to_nat sdp_data_offset) bs in            (* packet.data = bytestring[10:] *)
  bind (struct_unpack_from sdp_unpack_fmt bs 0) (fun vs =>
  match vs with
  | [v0; v1; v2; v3; v4; v5; v6; v7] =>
      let '(re, tg, dp, dc, sp, sc, dx, dy, sx, sy) := sdp_decode_fields v0 v1 v2 v3 v4 v5 v6 v7 in
      Ok {| reply_expected := re; tag := tg; dest_port := dp; dest_cpu := dc; src_port := sp;
            src_cpu := sc; dest_x := dx; dest_y := dy; src_x := sx; src_y := sy; data := d |}
  | _ => OtherError                                          (* ValueError: wrong number of values *)
  end).

(* the unrolled loop of SCPPacket.from_bytestring: (arg1, arg2, arg3, offset) *)
Definition scp_unpack_args (n_args : Z) (d : list Z) : result (option Z * option Z * option Z * Z) :=
  let data_len := Z.of_nat (List.length d) in
  let offset := 0 in
  if scp_take_arg1 n_args data_len then
    bind (unpack_one scp_unpack_arg1_fmt d offset) (fun a1 =>
    let offset := offset + scp_arg1_step in
    if scp_take_arg2 n_args data_len then
      bind (unpack_one scp_unpack_arg2_fmt d offset) (fun a2 =>
      let offset := offset + scp_arg2_step in
      if scp_take_arg3 n_args data_len then
        bind (unpack_one scp_unpack_arg3_fmt d offset) (fun a3 =>
        let offset := offset + scp_arg3_step in
        Ok (Some a1, Some a2, Some a3, offset))
      else Ok (Some a1, Some a2, None, offset))
    else Ok (Some a1, None, None, offset))
  else Ok (None, None, None, offset).

(* SCPPacket.from_bytestring(scp_packet, n_args) *)
Definition scp_of_bytes (bs : list Z) (n_args : Z) : result scp :=
  bind (sdp_of_bytes bs) (fun p =>
  let d := skipn (Z.to_nat scp_args_offset) (data p) in      (* data = packet.data[4:] *)
  bind (struct_unpack_from scp_unpack_header_fmt (data p) 0) (fun cs =>
  match cs with
  | [c; s] =>
      bind (scp_unpack_args n_args d) (fun '(a1, a2, a3, offset) =>
      Ok {| sdp_part := with_data p (skipn (Z.to_nat offset) d);   (* packet.data = data[offset:] *)
            cmd_rc := c; seq := s; arg1 := a1; arg2 := a2; arg3 := a3 |})
  | _ => OtherError
  end)).
