(* Proofs about the bit-field model (see Props/C08.v for the property theorems). *)
From Coq Require Import ZArith List Bool Lia.
Require Import Rig.Model.Base Rig.Model.BitField Rig.Spec.BitField.
Import ListNotations.
Open Scope Z_scope.
